#!/bin/bash
# Offline setup: nothing has to be built. icontract/deal are optional (not needed by the checks);
# they are installed beside the repo's interpreter if the wheelhouse is present.
cd "$(dirname "$0")"
mkdir -p .work evidence
if [ -d /opt/veriftools/wheels ] && [ ! -d .deps/icontract ]; then
  /venv/bin/pip install -q --no-index --find-links /opt/veriftools/wheels --target .deps icontract >/dev/null 2>&1 || true
fi
/venv/bin/python -c "import torch, pulser, scipy, numpy; print('setup ok')"
