#!/usr/bin/env python3
"""Regenerates MANIFEST.json from the property modules' own metadata (so the two never drift)."""
import importlib, json, os, sys

ROOT = os.path.dirname(os.path.dirname(os.path.abspath(__file__)))
sys.path.insert(0, ROOT)
props = [json.loads(l) for l in open(os.path.join(ROOT, "properties.jsonl"))]
ids = [p["id"] for p in props]
checks, na = [], []
NA = json.load(open(os.path.join(ROOT, "tools", "not_applicable.json")))
engines = {}
for pid in ids:
    path = os.path.join(ROOT, "vlib", "props", f"{pid}.py")
    if not os.path.exists(path):
        na.append({"property_id": pid, "reason": NA.get(pid, "check not built yet in this round (see DESIGN.md section 4 for the planned monitor)")})
        continue
    src = open(path).read()
    ns = {}
    # metadata is plain module-level constants: read without importing torch
    import ast
    tree = ast.parse(src)
    for node in tree.body:
        if isinstance(node, ast.Assign) and len(node.targets) == 1 and isinstance(node.targets[0], ast.Name):
            name = node.targets[0].id
            if name in ("LEVEL", "TECHNIQUE", "LEVEL_TEXT", "LEVEL_NOTE", "ENGINE", "DESIGN_REF", "HAS_THOROUGH"):
                try:
                    ns[name] = ast.literal_eval(node.value)
                except Exception:
                    pass
    eng = ns.get("ENGINE", "unit-contracts")
    engines.setdefault(eng, []).append(pid)
    c = {
        "property_id": pid,
        "quick_cmd": f"./check {pid} --tier quick",
        "thorough_cmd": f"./check {pid} --tier thorough",
        "evidence_file": f"evidence/{pid}.json",
        "replay_cmd_template": f"./check {pid} --replay {{path}}",
        "engine": eng,
        "level_claimed": {"category": ns.get("LEVEL", "exploration"), "text": ns.get("LEVEL_TEXT", ""), "design_ref": ns.get("DESIGN_REF", f"DESIGN.md section 4 {pid}")},
        "level_note": ns.get("LEVEL_NOTE", ""),
        "technique": ns.get("TECHNIQUE", "runtime monitoring"),
    }
    checks.append(c)
ENG_DESC = {
    "unit-contracts": "pre/postcondition wrappers on the real functions/classes, driven by seeded generators; oracle = dense numpy/scipy models",
    "adapter-oracle": "contracts on PulserData/SequenceData against an independent reading of the same Pulser sequence (pulser-core as oracle)",
    "e2e-reference": "boundary recorder on the backends' _run_from_sequence_data + dense reference propagation; metamorphic run pairs",
    "trace-automaton": "method-level event trace of the noisy MPS solver checked by an online automaton, with threshold injection",
    "crash-enumeration": "fake clock + crash injection at every autosave / file-system operation, then resume",
}
man = {
    "version": 1,
    "setup_cmd": "bash setup.sh",
    "hooks": {
        "guard": "PASQAL_IO_EMULATORS_VERIF",
        "enable": "./check exports PASQAL_IO_EMULATORS_VERIF=1; all monitors are installed from the harness by wrapping module/class attributes of the code imported from /repo's working tree (no source hooks are committed in /repo)",
        "baseline_off_cmd": "cd /repo && env -u PASQAL_IO_EMULATORS_VERIF /venv/bin/python -m pytest -ra -q -p no:cacheprovider --timeout=900 --continue-on-collection-errors",
        "source_commits": [],
        "add_only": True,
    },
    "engines": [{"name": k, "path": "vlib/", "serves_properties": v, "kind_free_text": ENG_DESC.get(k, "")} for k, v in engines.items()],
    "checks": checks,
    "not_applicable": na,
    "notes": "Technique family: runtime monitoring. Every check runs the real code from /repo's working tree under generated/hostile workloads with monitors observing it; see DESIGN.md. Repository fixes (fix: commits) and open findings are listed in known_findings.json.",
}
json.dump(man, open(os.path.join(ROOT, "MANIFEST.json"), "w"), indent=1)
print(f"{len(checks)} checks, {len(na)} not_applicable")
