#!/bin/bash
# usage: tools/with_patch.sh <patch.diff | -R:<commit>> <ID> [<ID> ...]   (env TIER=quick|thorough)
# Applies a patch to a scratch worktree of /repo HEAD (outside /repo and /verif), runs the given
# checks against it (VERIF_REPO) WITHOUT rewriting evidence of the real tree, and removes the worktree.
set -u
PATCH="$1"; shift
[[ "$PATCH" != -R:* ]] && PATCH="$(realpath "$PATCH")"
WT=$(mktemp -d /tmp/verif_wt_XXXXXX)
git -C /repo worktree add -q --detach "$WT" HEAD || exit 3
if [[ "$PATCH" == -R:* ]]; then
  git -C "$WT" show "${PATCH#-R:}" | git -C "$WT" apply -R || { echo "reverse apply failed"; git -C /repo worktree remove --force "$WT"; exit 3; }
else
  git -C "$WT" apply "$PATCH" || { echo "apply failed"; git -C /repo worktree remove --force "$WT"; exit 3; }
fi
cd "$(dirname "$0")/.."
mkdir -p .work/evidence_backup
rc_all=0
for id in "$@"; do
  [ -f evidence/$id.json ] && cp evidence/$id.json .work/evidence_backup/$id.json
  VERIF_REPO="$WT" timeout ${WP_TIMEOUT:-1800} ./check "$id" --tier "${TIER:-quick}" > .work/with_patch_$id.log 2>&1
  rc=$?
  echo "== $id rc=$rc"; grep -E "^(VIOLATION|KNOWN-FINDING|INCONCLUSIVE)|^    C" .work/with_patch_$id.log | cut -c1-260 | head -${WP_LINES:-12}
  [ -f .work/evidence_backup/$id.json ] && cp .work/evidence_backup/$id.json evidence/$id.json
  [ $rc -ne 0 ] && rc_all=1
done
git -C /repo worktree remove --force "$WT"
exit $rc_all
