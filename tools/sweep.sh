#!/bin/bash
# usage: tools/sweep.sh <tier> "<seeds>" [ids...]   -> one line per (id, seed): rc and any VIOLATION/INCONCLUSIVE lines
cd "$(dirname "$0")/.."
TIER="$1"; SEEDS="$2"; shift 2
IDS="$@"
[ -z "$IDS" ] && IDS=$(/venv/bin/python -c "import json;print(' '.join(c['property_id'] for c in json.load(open('MANIFEST.json'))['checks']))")
bash setup.sh >/dev/null 2>&1
for s in $SEEDS; do for id in $IDS; do
  t0=$(date +%s)
  out=$(VERIF_SEED=$s ./check $id --tier $TIER 2>&1); rc=$?
  echo "== $id seed=$s tier=$TIER rc=$rc $(( $(date +%s) - t0 ))s"
  echo "$out" | grep -E "^(VIOLATION|INCONCLUSIVE)|^    C|Traceback|Error" | cut -c1-400 | head -8
done; done
