#!/bin/bash
# usage: tools/adopt_seed.sh <ID> [<tag>] [--no-suite]
# Confirms a seeded change produced by an independent sub-agent (in /tmp/seed_<ID><tag>_out) and, if
# everything holds, stores it as /verif/seeded/<ID><tag>/ {patch.diff, demo.py, notes.md, meta.json}.
#  1. patch applies to a fresh scratch worktree of /repo HEAD
#  2. demo passes on the unchanged tree and fails on the changed one
#  3. the repository's test suite gives the same failures on the changed tree as on HEAD
# The agent's worktree and the scratch worktree are removed afterwards.
set -u
ID="$1"; TAG="${2:-}"; [ "$TAG" = "--no-suite" ] && TAG=""
OUT=/tmp/seed_${ID}${TAG}_out
AWT=/tmp/seed_${ID}${TAG}
DEST="$(cd "$(dirname "$0")/.." && pwd)/seeded/${ID}${TAG}"
[ -f "$OUT/patch.diff" ] && [ -f "$OUT/demo.py" ] || { echo "missing deliverables in $OUT"; exit 2; }
WT=$(mktemp -d /tmp/adopt_wt_XXXXXX)
git -C /repo worktree add -q --detach "$WT" HEAD || exit 3
cleanup() { git -C /repo worktree remove --force "$WT" 2>/dev/null; }
export OMP_NUM_THREADS=2 MKL_NUM_THREADS=2 OPENBLAS_NUM_THREADS=2
cd "$WT"
REPO_UNDER_TEST="$WT" PYTHONPATH="$WT" timeout 900 /venv/bin/python "$OUT/demo.py" > "$OUT/confirm_demo_orig.txt" 2>&1; rc_orig=$?
git -C "$WT" apply "$OUT/patch.diff" || { echo "patch does not apply"; cleanup; exit 3; }
REPO_UNDER_TEST="$WT" PYTHONPATH="$WT" timeout 900 /venv/bin/python "$OUT/demo.py" > "$OUT/confirm_demo_patched.txt" 2>&1; rc_pat=$?
echo "demo: original rc=$rc_orig patched rc=$rc_pat"
suite="skipped"
if [[ " $* " != *" --no-suite "* ]]; then
  PYTHONPATH="$WT" OMP_NUM_THREADS=3 MKL_NUM_THREADS=3 timeout 3000 /venv/bin/python -m pytest -q -p no:cacheprovider --timeout=900 test -rf 2>&1 | grep -E "^(FAILED|ERROR)|passed|failed" > "$OUT/confirm_suite.txt"
  suite=$(tail -1 "$OUT/confirm_suite.txt")
  nfail=$(grep -c -E "^(FAILED|ERROR)" "$OUT/confirm_suite.txt")
  nother=$(grep -E "^(FAILED|ERROR)" "$OUT/confirm_suite.txt" | grep -v -c -E "test_XY_3atoms")
  echo "suite: $suite (failures other than the 2 baseline XY ones: $nother)"
else
  nother=0
fi
files=$(git -C "$WT" diff --stat | tail -1)
cleanup
if [ $rc_orig -ne 0 ] || [ $rc_pat -eq 0 ] || [ "$nother" -ne 0 ]; then
  echo "NOT ADOPTED: $ID$TAG"; exit 1
fi
mkdir -p "$DEST"
cp "$OUT/patch.diff" "$OUT/demo.py" "$DEST/"
[ -f "$OUT/notes.md" ] && cp "$OUT/notes.md" "$DEST/"
/venv/bin/python - "$ID" "$DEST" "$rc_orig" "$rc_pat" "$suite" "$files" <<'E'
import json, sys, os
pid, dest, ro, rp, suite, files = sys.argv[1:7]
notes = open(os.path.join(dest, "notes.md")).read() if os.path.exists(os.path.join(dest, "notes.md")) else ""
meta = {"property": pid, "source": "independent sub-agent given only the property record and a scratch worktree",
        "needs_to_manifest": notes[:1500], "confirmed": {"demo_rc_original": int(ro), "demo_rc_patched": int(rp),
        "suite_on_patched_tree": suite, "diffstat": files,
        "commands": ["git apply patch.diff (scratch worktree of /repo HEAD)", "REPO_UNDER_TEST=<wt> /venv/bin/python demo.py (before/after)",
                     "PYTHONPATH=<wt> /venv/bin/python -m pytest -q -p no:cacheprovider --timeout=900 test"]},
        "caught_by": None}
json.dump(meta, open(os.path.join(dest, "meta.json"), "w"), indent=1)
E
git -C /repo worktree remove --force "$AWT" 2>/dev/null
rm -rf "$OUT"
echo "ADOPTED: $DEST"
