#!/venv/bin/python
"""Run every seeded change (seeded/<ID>/patch.diff) against its own check (and optional extra checks) in a scratch
worktree and record the outcome in seeded/<ID>/meta.json (`caught_by`) and in seeded/MATRIX.md.

usage: tools/seed_matrix.py [ID ...]        env TIER=quick|thorough, EXTRA="C01,C02" (checks run against every seed)
"""
import datetime
import json
import os
import re
import subprocess
import sys

ROOT = os.path.dirname(os.path.dirname(os.path.abspath(__file__)))
os.chdir(ROOT)
ids = sys.argv[1:] or sorted(d for d in os.listdir("seeded") if os.path.isdir(os.path.join("seeded", d)))
extra = [x for x in os.environ.get("EXTRA", "").split(",") if x]
# checks that exercise the same code as the seeded property and are worth a cross run
RELATED = {"C01": ["C16", "C28"], "C02": ["C03"], "C07": ["C01"], "C08": ["C14"], "C10": ["C12"], "C21": ["C22"], "C22": ["C21"], "C24": ["C17"], "C26": ["C27"], "C19": ["C18"], "C23": ["C01"]}
rows = []
for sid in ids:
    patch = os.path.join("seeded", sid, "patch.diff")
    if not os.path.exists(patch):
        continue
    own = sid[:3]  # seeded/C07b is a second change for C07
    checks = [own] + [c for c in RELATED.get(own, []) + extra if c != own]
    p = subprocess.run(["bash", "tools/with_patch.sh", patch] + checks, capture_output=True, text=True, env={**os.environ, "WP_LINES": "6"})
    out = p.stdout
    res, cur = {}, None
    for line in out.splitlines():
        m = re.match(r"== (C\d+) rc=(\d+)", line)
        if m:
            cur = m.group(1)
            res[cur] = {"rc": int(m.group(2)), "keys": []}
        elif cur and line.startswith("    C"):
            k = line.strip().split(": ")[0]
            if k not in res[cur]["keys"]:
                res[cur]["keys"].append(k)
        elif cur and line.startswith("INCONCLUSIVE"):
            res[cur]["inconclusive"] = line[:200]
    if "apply failed" in out + p.stderr:
        res = {"error": "patch does not apply to the current /repo HEAD"}
    meta_p = os.path.join("seeded", sid, "meta.json")
    meta = json.load(open(meta_p))
    caught = [c for c, r in res.items() if isinstance(r, dict) and r.get("rc") == 1 and r.get("keys")]
    meta["caught_by"] = {"checks": caught, "tier": os.environ.get("TIER", "quick"), "date": datetime.date.today().isoformat(), "detail": res}
    json.dump(meta, open(meta_p, "w"), indent=1)
    rows.append((sid, res))
    print(sid, "->", caught or res, flush=True)

# rewrite the matrix from all meta files
lines = ["# Seeded changes and the checks that catch them", "",
         "Each row: a behaviour-changing patch written by an independent sub-agent from the property text alone (it compiles and the repository's own tests still pass), "
         "and what `tools/with_patch.sh` reported when the listed checks were run against a scratch worktree with the patch applied.", "",
         "| seed | caught by | violation keys (first) | not caught by (cross runs) |", "|---|---|---|---|"]
for sid in sorted(d for d in os.listdir("seeded") if os.path.isdir(os.path.join("seeded", d))):
    try:
        cb = json.load(open(os.path.join("seeded", sid, "meta.json"))).get("caught_by")
    except Exception:
        continue
    if not cb:
        lines.append(f"| {sid} | (not run) | | |")
        continue
    det = cb.get("detail", {})
    keys = "; ".join(f"`{k}`" for c in cb["checks"] for k in det[c]["keys"][:2])
    missed = ", ".join(c for c, r in det.items() if isinstance(r, dict) and r.get("rc") != 1)
    lines.append(f"| {sid} | {', '.join(cb['checks']) or '**none**'} | {keys[:400]} | {missed} |")
open("seeded/MATRIX.md", "w").write("\n".join(lines) + "\n")
