#!/bin/bash
# usage: tools/adopt_and_test.sh <ID> <tag>   -> adopt the sub-agent's seeded change, then run its property's check against it
cd "$(dirname "$0")/.."
ID="$1"; TAG="${2:-}"
bash tools/adopt_seed.sh "$ID" "$TAG" > .work/adopt_${ID}${TAG}.log 2>&1 || { echo "NOT ADOPTED $ID$TAG: $(tail -2 .work/adopt_${ID}${TAG}.log | tr '\n' ' ')"; exit 1; }
/venv/bin/python tools/seed_matrix.py "${ID}${TAG}" >> .work/adopt_${ID}${TAG}.log 2>&1
tail -1 .work/adopt_${ID}${TAG}.log
