#!/usr/bin/env python3
"""Prints the prompt handed to an independent sub-agent that must break one property.

usage: tools/seed_prompt.py <ID> [<tag>]   -> creates worktree /tmp/seed_<ID><tag> and prints the prompt.
The agent receives only the property record and its own scratch worktree (nothing from /verif).
"""
import json
import os
import subprocess
import sys

ROOT = os.path.dirname(os.path.dirname(os.path.abspath(__file__)))
pid = sys.argv[1]
tag = sys.argv[2] if len(sys.argv) > 2 else ""
prop = next(json.loads(l) for l in open(os.path.join(ROOT, "properties.jsonl")) if json.loads(l)["id"] == pid)
wt = f"/tmp/seed_{pid}{tag}"
out = f"/tmp/seed_{pid}{tag}_out"
if not os.path.isdir(wt):
    subprocess.run(["git", "-C", "/repo", "worktree", "add", "-q", "--detach", wt, "HEAD"], check=True)
os.makedirs(out, exist_ok=True)
hint = sys.argv[3] if len(sys.argv) > 3 else ""
print(f"""You are helping test a verification harness by writing ONE realistic, subtle bug ("seeded change") for the Python project pasqal-io/emulators (PyTorch neutral-atom quantum emulators: emu_base, emu_mps, emu_sv).

Your scratch git worktree of the repository is {wt} (a detached checkout of the current HEAD). Work ONLY there. Do NOT read or touch /verif or /repo (other than through your worktree), and do not read /root/.vp. No network is available.

The property your change must break (this record is everything you are given about it):

{json.dumps(prop, indent=1)}

Task: make a small source change inside {wt} (library code under emu_base/, emu_mps/ or emu_sv/ only; no test edits) such that
 1. the package still imports and the project's existing tests that pass today still pass (see below how to run them);
 2. the property above is violated for some inputs / histories / crash points;
 3. the violation needs something SPECIFIC to manifest: e.g. an unusual input (particular sizes, a zero, a tie, a flat segment, a particular sparsity pattern, dt not dividing the duration...), a multi-step sequence of operations, a particular crash point or interleaving, a particular configuration combination, or two cooperating edit sites that each look fine alone. It must NOT be a bug that ordinary use or the existing tests expose at once. Think like a plausible maintainer mistake (off-by-one at a boundary, wrong branch for a rare case, missing conjugate that only matters for non-zero phase, a "performance optimisation" that is wrong for one shape, stale cached value, tolerance loosened, ...). {hint}
 4. write a demonstration program {out}/demo.py that exits 0 on the ORIGINAL code and exits non-zero (assertion failure) on your CHANGED code. It must pick the code under test from the environment variable REPO_UNDER_TEST (default {wt}) by doing `sys.path.insert(0, os.environ.get("REPO_UNDER_TEST", "{wt}"))` before importing emu_base/emu_mps/emu_sv, must be deterministic (seed every RNG) and run in under ~2 minutes single-threaded.

How to run things:
 * Interpreter: /venv/bin/python (torch, pulser-core 1.9.1, numpy, scipy, pytest installed; NO pulser-simulation/qutip). The package is an editable install pointing at /repo, but a sys.path / PYTHONPATH entry takes precedence, so always run with `cd {wt} && PYTHONPATH={wt} OMP_NUM_THREADS=2 MKL_NUM_THREADS=2 /venv/bin/python ...` and check `emu_base.__file__` starts with {wt}.
 * Tests: `cd {wt} && PYTHONPATH={wt} OMP_NUM_THREADS=2 MKL_NUM_THREADS=2 /venv/bin/python -m pytest -q -p no:cacheprovider --timeout=900 -x -q test/<relevant files>` while iterating. On the unchanged tree the whole suite gives "2 failed, 431 passed, 2 skipped" in about 2-4 minutes; the only failures are test/emu_mps/test_end_to_end.py::test_XY_3atoms and ::test_XY_3atomswith_slm (numbers recorded for an older Pulser; unrelated). No test that passes on the unchanged tree may fail with your change. Before finishing, run the whole suite once on your changed tree (`... -m pytest -q -p no:cacheprovider --timeout=900 test 2>&1 | tail -30`; other jobs share the machine so keep threads at 2) and save the tail of its output to {out}/suite_after.txt. It must again show exactly those 2 failures.
 * Demonstrate: `REPO_UNDER_TEST={wt} /venv/bin/python {out}/demo.py` must FAIL with your change; then `git -C {wt} stash` (or use `git -C {wt} worktree`-free approach: `git -C {wt} diff > {out}/patch.diff; git -C {wt} checkout -- .`), run it again: it must PASS; then re-apply the patch (`git -C {wt} apply {out}/patch.diff`).

Deliverables (all under {out}/):
 * patch.diff  — `git -C {wt} diff` of your change (must apply cleanly to the worktree's HEAD with `git apply`);
 * demo.py     — as described;
 * notes.md    — 5-15 lines: what the change is, why it breaks the property, exactly what is needed for it to manifest (input class / sequence / crash point), why existing tests do not notice, and the commands you ran with their outcome.
Leave the worktree with the patch applied. In your final message give a 5-line summary (what you changed, what it needs to manifest, test-suite comparison result, demo results before/after).""")
