"""Driver: ./check <ID> [--tier quick|thorough] [--replay PATH] [--jobs N]

A property module (vlib/props/<ID>.py) provides

    LEVEL        evidence level ("exploration", "fault_enumeration", "other" ...)
    RULE         how cases are generated and what makes one distinct / non-trivial
    ASSUMPTIONS  list[str]
    REQUIRED     counter names that must be > 0 for a "held" verdict (deciding monitors)
    gen_cases(tier, seed) -> list[dict]      JSON-serialisable case descriptors
    run_case(case) -> dict                   see vlib/worker.py

The driver shards the cases over subprocesses (never multiprocessing.Pool), merges
the per-case observations, classifies violations against known_findings.json, writes
evidence/<ID>.json and prints the verdict.

Exit codes: 0 held (only known findings, if any); 1 violation; 2 inconclusive.
"""
from __future__ import annotations

import argparse
import importlib
import json
import os
import subprocess
import sys
import tempfile
import time

from vlib import env
from vlib import findings as findings_mod

MAX_JOBS = int(os.environ.get("VERIF_JOBS", "16"))


def _load(prop_id: str):
    return importlib.import_module(f"vlib.props.{prop_id}")


def _run_shards(prop_id, cases, jobs, shard_timeout):
    """Run cases in `jobs` subprocess shards; returns (results, errors)."""
    n = max(1, min(jobs, len(cases)))
    shards = [cases[i::n] for i in range(n)]
    tmpdir = tempfile.mkdtemp(prefix=f"verif_{prop_id}_", dir=os.path.join(env.VERIF_DIR, ".work"))
    procs = []
    for i, shard in enumerate(shards):
        inp = os.path.join(tmpdir, f"in{i}.json")
        out = os.path.join(tmpdir, f"out{i}.jsonl")
        with open(inp, "w") as f:
            json.dump(shard, f)
        log = open(os.path.join(tmpdir, f"log{i}.txt"), "w")
        p = subprocess.Popen(
            [sys.executable, "-W", "ignore", "-m", "vlib.worker", prop_id, inp, out],
            stdout=log,
            stderr=subprocess.STDOUT,
            cwd=env.VERIF_DIR,
        )
        procs.append((p, out, log, shard, i))
    results, errors = [], []
    deadline = time.time() + shard_timeout
    for p, out, log, shard, i in procs:
        try:
            p.wait(timeout=max(1.0, deadline - time.time()))
        except subprocess.TimeoutExpired:
            p.kill()
            p.wait()
            errors.append(f"shard {i}: watchdog fired after {shard_timeout}s")
        log.close()
        got = []
        if os.path.exists(out):
            with open(out) as f:
                for line in f:
                    line = line.strip()
                    if line:
                        try:
                            got.append(json.loads(line))
                        except json.JSONDecodeError:
                            pass
        results.extend(got)
        if len(got) < len(shard):
            tail = ""
            try:
                with open(os.path.join(tmpdir, f"log{i}.txt")) as f:
                    tail = f.read()[-1500:]
            except OSError:
                pass
            errors.append(
                f"shard {i}: {len(got)}/{len(shard)} cases reported (rc={p.returncode}) {tail}"
            )
    # scratch dir holds only inputs/outputs of this run
    import shutil

    shutil.rmtree(tmpdir, ignore_errors=True)
    return results, errors


def _merge(results):
    counters, maxima = {}, {}
    for r in results:
        for k, v in (r.get("counters") or {}).items():
            counters[k] = counters.get(k, 0) + v
        for k, v in (r.get("max") or {}).items():
            if v is None:
                continue
            if k not in maxima or v > maxima[k]:
                maxima[k] = v
    return counters, maxima


def main(argv=None):
    ap = argparse.ArgumentParser()
    ap.add_argument("prop")
    ap.add_argument("--tier", default=os.environ.get("VERIF_TIER", "quick"))
    ap.add_argument("--replay", default=None)
    ap.add_argument("--jobs", type=int, default=MAX_JOBS)
    ap.add_argument("--limit", type=int, default=None, help="debug: only the first N cases")
    args = ap.parse_args(argv)
    prop_id = args.prop
    tier = args.tier if args.tier in ("quick", "thorough") else "quick"
    try:
        seed = int(os.environ.get("VERIF_SEED", "0"))
    except ValueError:
        seed = 0
    os.makedirs(os.path.join(env.VERIF_DIR, ".work"), exist_ok=True)
    os.makedirs(os.path.join(env.VERIF_DIR, "evidence"), exist_ok=True)
    mod = _load(prop_id)
    t0 = time.time()

    if args.replay:
        with open(args.replay) as f:
            rep = json.load(f)
        cases = [rep["case"]]
    else:
        cases = mod.gen_cases(tier, seed)
        for i, c in enumerate(cases):
            c.setdefault("idx", i)
        if args.limit:
            cases = cases[: args.limit]

    timeout = getattr(mod, "SHARD_TIMEOUT", {"quick": 1500, "thorough": 6 * 3600})[tier]
    results, errors = _run_shards(prop_id, cases, args.jobs, timeout)
    counters, maxima = _merge(results)

    known = findings_mod.load()
    new_viol, known_hits = [], {}
    harness_errors = list(errors)
    for r in results:
        if r.get("harness_error"):
            harness_errors.append(f"case {r.get('idx')}: {r['harness_error']}")
        for v in r.get("violations") or []:
            entry = findings_mod.match(known, prop_id, v["key"])
            if entry is not None:
                known_hits.setdefault(v["key"], {"entry": entry, "n": 0, "first": v})
                known_hits[v["key"]]["n"] += 1
            else:
                new_viol.append((r, v))

    nontrivial_fps = {r["fp"] for r in results if r.get("nontrivial") and r.get("fp") is not None}
    for r in results:  # batch cases report their own list of non-trivial sub-case fingerprints
        nontrivial_fps.update(r.get("fps") or [])
    n_eval = sum(int(r.get("n_eval", 1)) for r in results)
    samples = [r["sample"] for r in results if r.get("sample") is not None][:4]
    if not samples and cases:
        samples = cases[:2]

    required = getattr(mod, "REQUIRED", [])
    missing = [k for k in required if counters.get(k, 0) <= 0]
    min_nt = getattr(mod, "MIN_NONTRIVIAL", 2)
    rejected = counters.get("rejected", 0)
    inconclusive = []
    if harness_errors:
        inconclusive.append(f"{len(harness_errors)} harness error(s): {harness_errors[0][:400]}")
    if missing and not args.replay:
        inconclusive.append(f"deciding monitor(s) never evaluated: {missing}")
    if len(nontrivial_fps) < min_nt and not args.replay:
        inconclusive.append(f"only {len(nontrivial_fps)} distinct non-trivial cases (< {min_nt})")
    max_rej = getattr(mod, "MAX_REJECT_FRACTION", 0.5)
    if results and rejected > max_rej * n_eval and not args.replay:
        inconclusive.append(f"{rejected}/{n_eval} generated cases rejected by the code under test")

    wall = time.time() - t0
    level = getattr(mod, "LEVEL", "exploration")
    coverage = {
        "evaluations": n_eval,
        "cases_or_batches": len(results),
        "distinct_nontrivial": len(nontrivial_fps),
        "rule": getattr(mod, "RULE", ""),
        "samples": samples,
        "monitor_counters": counters,
        "worst_observed": maxima,
        "known_findings_hit": {k: h["n"] for k, h in known_hits.items()},
        "rejected_by_code_under_test": rejected,
        "inconclusive_reasons": inconclusive,
        "exhaustive": bool(getattr(mod, "EXHAUSTIVE", {}).get(tier, False)),
    }
    if level == "other":
        coverage["explanation"] = getattr(mod, "EXPLANATION", getattr(mod, "RULE", "see rule"))
    extra = getattr(mod, "extra_coverage", None)
    if extra:
        coverage.update(extra(results))
    evidence = {
        "property_id": prop_id,
        "tier": tier,
        "seed": seed,
        "level": level,
        "coverage": coverage,
        "assumptions": list(getattr(mod, "ASSUMPTIONS", [])),
        "wall_s": round(wall, 2),
        "violations": len(new_viol),
    }
    if not args.replay:
        with open(os.path.join(env.VERIF_DIR, "evidence", f"{prop_id}.json"), "w") as f:
            json.dump(evidence, f, indent=1, default=str)

    print(f"[{prop_id}] tier={tier} seed={seed} evaluations={n_eval} distinct_nontrivial={len(nontrivial_fps)} wall={wall:.1f}s")
    print(f"[{prop_id}] monitors: " + ", ".join(f"{k}={v}" for k, v in sorted(counters.items())))
    if maxima:
        print(f"[{prop_id}] worst observed: " + ", ".join(f"{k}={v:.3g}" for k, v in sorted(maxima.items())))
    for k, h in sorted(known_hits.items()):
        print(f"KNOWN-FINDING: property={prop_id} {h['entry']['what']} [{k}; {h['n']} case(s)]")
    if new_viol:
        rdir = os.path.join(env.VERIF_DIR, "replays", prop_id)
        os.makedirs(rdir, exist_ok=True)
        seen = set()
        for r, v in new_viol:
            if v["key"] in seen and len(seen) > 0:
                continue
            seen.add(v["key"])
            path = os.path.join(rdir, f"{v['key'].replace(':', '_').replace('/', '_')[:80]}.json")
            case = next((c for c in cases if c.get("idx") == r.get("idx")), None)
            with open(path, "w") as f:
                json.dump({"property": prop_id, "case": case, "violation": v}, f, indent=1, default=str)
            print(f"VIOLATION property={prop_id} replay={path}")
            print(f"    {v['key']}: {v.get('msg', '')[:600]}")
        print(f"[{prop_id}] {len(new_viol)} violating observation(s), {len(seen)} distinct mechanism(s)")
        return 1
    if inconclusive:
        for m in inconclusive:
            print(f"INCONCLUSIVE property={prop_id}: {m}")
        return 2
    print(f"[{prop_id}] held on everything explored")
    return 0


if __name__ == "__main__":
    sys.exit(main())
