"""Random tensor networks and dense helpers for the MPS/MPO checks (C10, C11, C13, C15)."""
import numpy as np

from vlib import ref

BASES = {"rg": ("r", "g"), "01": ("0", "1"), "rgx": ("g", "r", "x")}


def rand_mps_factors(rng, n, d, chi, scale=1.0, real=False):
    import torch

    dims = [1] + [int(rng.integers(1, chi + 1)) for _ in range(n - 1)] + [1]
    # a bond cannot usefully exceed the dimension of either side, but redundant bonds are legal and are kept sometimes
    fs = []
    for i in range(n):
        a = rng.normal(size=(dims[i], d, dims[i + 1]))
        if not real:
            a = a + 1j * rng.normal(size=(dims[i], d, dims[i + 1]))
        fs.append(torch.tensor(a * scale ** (1.0 / n), dtype=torch.complex128))
    return fs


def rand_mps(rng, n, d, chi, *, basis=None, precision=1e-5, max_bond_dim=1024, center=None, scale=1.0, real=False):
    from emu_mps import MPS

    eig = basis if basis is not None else (BASES["rg"] if d == 2 else BASES["rgx"])
    return MPS(rand_mps_factors(rng, n, d, chi, scale, real), orthogonality_center=center, precision=precision, max_bond_dim=max_bond_dim,
               num_gpus_to_use=0, eigenstates=eig)


def rand_mpo(rng, n, d, chi, herm=False):
    import torch
    from emu_mps import MPO

    dims = [1] + [int(rng.integers(1, chi + 1)) for _ in range(n - 1)] + [1]
    fs = [torch.tensor(rng.normal(size=(dims[i], d, d, dims[i + 1])) + 1j * rng.normal(size=(dims[i], d, d, dims[i + 1])), dtype=torch.complex128)
          for i in range(n)]
    return MPO(fs, num_gpus_to_use=0)


def dense(mps):
    return ref.mps_to_dense([ref.t2n(f) for f in mps.factors])


def dense_op(mpo):
    return ref.mpo_to_dense([ref.t2n(f) for f in mpo.factors])


def bonds(mps):
    return [int(f.shape[2]) for f in mps.factors[:-1]]


def canonical_errors(mps):
    """(max deviation from left-orthonormality left of the centre, right of it), None if no centre declared"""
    c = mps.orthogonality_center
    if c is None:
        return None
    el = er = 0.0
    for i, f in enumerate(mps.factors):
        a = ref.t2n(f)
        if i < c:
            m = a.reshape(-1, a.shape[2])
            el = max(el, float(np.abs(m.conj().T @ m - np.eye(m.shape[1])).max()))
        elif i > c:
            m = a.reshape(a.shape[0], -1)
            er = max(er, float(np.abs(m @ m.conj().T - np.eye(m.shape[0])).max()))
    return el, er


def site_op(op, i, n, d):
    return ref.op_on(op, i, n, d)


def entropy_dense(psi, cut, n, d):
    """von Neumann entropy of sites [0..cut] vs the rest for a (not necessarily normalised) dense vector"""
    m = psi.reshape(d ** (cut + 1), -1)
    s = np.linalg.svd(m, compute_uv=False)
    p = s ** 2
    p = p[p > 0]
    return float(-(p * np.log(p)).sum())
