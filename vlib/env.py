"""Process-level setup shared by the driver and the shard workers.

* single-threaded BLAS/OpenMP (parallelism comes from shards),
* the repository under test is imported from $VERIF_REPO (default /repo) and the
  import is asserted to come from there, so checks always run the current tree,
* the guard PASQAL_IO_EMULATORS_VERIF=1 is what `./check` exports; nothing in this
  package installs a wrapper unless it is set.
"""
import os
import sys

for _k in ("OMP_NUM_THREADS", "MKL_NUM_THREADS", "OPENBLAS_NUM_THREADS", "NUMEXPR_NUM_THREADS"):
    os.environ.setdefault(_k, "1")

VERIF_DIR = os.path.dirname(os.path.dirname(os.path.abspath(__file__)))
REPO = os.path.abspath(os.environ.get("VERIF_REPO", "/repo"))
GUARD = "PASQAL_IO_EMULATORS_VERIF"


def guard_on() -> bool:
    return os.environ.get(GUARD) == "1"


_ready = False


def setup():
    """Import torch / the repo once, pinned to REPO."""
    global _ready
    if _ready:
        return
    if REPO in sys.path:
        sys.path.remove(REPO)
    sys.path.insert(0, REPO)
    deps = os.path.join(VERIF_DIR, ".deps")
    if os.path.isdir(deps) and deps not in sys.path:
        sys.path.append(deps)  # at the END: must not shadow /venv's typing_extensions
    import torch

    torch.set_num_threads(1)
    import logging

    logging.getLogger("emulators").setLevel(logging.CRITICAL)
    import emu_base

    got = os.path.dirname(os.path.dirname(os.path.abspath(emu_base.__file__)))
    assert got == REPO, f"emu_base imported from {got}, expected {REPO}"
    import warnings

    warnings.filterwarnings("ignore")
    _ready = True


_PRISTINE = {}


def restore_dependency_globals():
    """pulser-core 1.9.1 keeps module-level lists that one of its own methods edits in place
    (HamiltonianData._get_eigenbasis appends "x" to channels.base_channel.EIGENSTATES[...] when a sequence without any
    used basis is sampled with a leakage noise model). The edit survives in the process and changes what LATER, unrelated
    sequences look like - a defect of the dependency, not of the code under test. Cases run in one worker process must
    not inherit it from each other, so the pristine content is put back before every case."""
    try:
        from pulser.channels import base_channel as bc
    except Exception:
        return
    if not _PRISTINE:
        _PRISTINE.update({k: list(v) for k, v in bc.EIGENSTATES.items()})
        # a pristine ground-rydberg / XY basis never contains the leakage state
        for k in ("ground-rydberg", "XY"):
            if k in _PRISTINE:
                _PRISTINE[k] = [x for x in _PRISTINE[k] if x != "x"]
    for k, v in _PRISTINE.items():
        if bc.EIGENSTATES.get(k) != v:
            bc.EIGENSTATES[k][:] = v


def seed_all(seed: int):
    import random
    import numpy as np
    import torch

    random.seed(seed)
    np.random.seed(seed % (2**32))
    torch.manual_seed(seed)
