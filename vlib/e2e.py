"""End-to-end monitors: boundary recorder on the backends' `_run_from_sequence_data`, dense reference
propagation of the recorded `SequenceData`, and comparison of `Results` with the reference.
"""
from __future__ import annotations

import contextlib
import logging

import numpy as np

from vlib import ref


# ----------------------------------------------------------------------------- recording
def snapshot(sd):
    """Deep copy (numpy) of what the solver is about to be given. Taken BEFORE the call: backends mutate it."""
    tt = [float(t) for t in sd.target_times]
    im = sd.interaction_matrix
    full = masked = None
    slm_end = 0.0
    if hasattr(im, "full_matrix"):
        full = ref.t2n(im.full_matrix).real.astype(float).copy()
        masked = ref.t2n(im.masked_matrix).real.astype(float).copy()
        slm_end = float(im.slm_end_time)
    else:  # some other callable: sample it
        full = ref.t2n(im(tt[-1])).real.astype(float).copy()
        masked = ref.t2n(im(0.0)).real.astype(float).copy()
    return {
        "omega": ref.t2n(sd.omega).copy(), "delta": ref.t2n(sd.delta).copy(), "phi": ref.t2n(sd.phi).copy(),
        "target_times": tt, "U_full": full, "U_masked": masked, "slm_end": slm_end,
        "qubit_ids": tuple(sd.qubit_ids), "bad_atoms": tuple(bool(b) for b in sd.bad_atoms),
        "lindblad_ops": [ref.t2n(op).copy() for op in sd.lindblad_ops], "state_prep_error": float(sd.state_prep_error),
        "dim": int(sd.dim), "kind": "rydberg" if sd.hamiltonian_type.name == "Rydberg" else "xy",
        "eigenstates": list(sd.eigenstates),
    }


def U_at(snap, t):
    return snap["U_masked"] if t < snap["slm_end"] else snap["U_full"]


@contextlib.contextmanager
def recording(backend_cls):
    """Wrap backend_cls._run_from_sequence_data; yields a list of (snapshot, Results) appended per call."""
    rec = []
    orig = backend_cls.__dict__["_run_from_sequence_data"]
    fn = orig.__func__ if isinstance(orig, staticmethod) else orig

    def wrapper(sequence_data, config):
        snap = snapshot(sequence_data)
        res = fn(sequence_data, config)
        rec.append((snap, res))
        return res

    backend_cls._run_from_sequence_data = staticmethod(wrapper)
    try:
        yield rec
    finally:
        backend_cls._run_from_sequence_data = orig


def quiet():
    return logging.WARN


# ----------------------------------------------------------------------------- reference propagation
def step_hamiltonian(snap, k, umode="start", noise=None):
    tt = snap["target_times"]
    t = tt[k] if umode == "start" else 0.5 * (tt[k] + tt[k + 1])
    om = snap["omega"][k].real
    de = snap["delta"][k].real
    ph = snap["phi"][k].real
    return ref.dense_hamiltonian(om, de, ph, U_at(snap, t), kind=snap["kind"], d=snap["dim"], noise=noise)


def straddles_slm(snap):
    """True if some step has different interaction matrices at its start and at its midpoint."""
    tt = snap["target_times"]
    e = snap["slm_end"]
    if e <= 0 or np.array_equal(snap["U_full"], snap["U_masked"]):
        return False
    return any(tt[k] < e <= 0.5 * (tt[k] + tt[k + 1]) for k in range(len(tt) - 1))


def propagate(snap, psi0=None, umode="start"):
    """Exact evolution under the piecewise-constant Hamiltonian. Returns (states per target time, H per step)."""
    n = snap["omega"].shape[1]
    d = snap["dim"]
    D = d ** n
    if psi0 is None:
        psi = np.zeros(D, dtype=complex)
        psi[0] = 1.0
    else:
        psi = np.asarray(psi0, dtype=complex).copy()
    tt = snap["target_times"]
    states = [psi]
    hams = []
    cacheH = None
    for k in range(len(tt) - 1):
        H = step_hamiltonian(snap, k, umode)
        hams.append(H)
        dt = (tt[k + 1] - tt[k]) * 1e-3
        if cacheH is not None and cacheH[0].shape == H.shape and np.array_equal(cacheH[0], H):
            w, v = cacheH[1], cacheH[2]
        else:
            w, v = np.linalg.eigh(H)
            cacheH = (H, w, v)
        psi = v @ (np.exp(-1j * w * dt) * (v.conj().T @ psi))
        states.append(psi)
    return states, hams


def propagate_lindblad(snap, rho0=None, umode="start"):
    """Exact evolution of the piecewise-constant Lindblad generator (row-major vectorisation)."""
    import scipy.linalg as sla
    from scipy.sparse.linalg import expm_multiply

    n = snap["omega"].shape[1]
    d = snap["dim"]
    D = d ** n
    if rho0 is None:
        rho = np.zeros((D, D), dtype=complex)
        rho[0, 0] = 1.0
    else:
        rho = np.asarray(rho0, dtype=complex).copy()
    jumps = ref.local_jumps(snap["lindblad_ops"], n, d)
    tt = snap["target_times"]
    out = [rho]
    hams = []
    cache = None
    for k in range(len(tt) - 1):
        H = step_hamiltonian(snap, k, umode)
        hams.append(H)
        dt = (tt[k + 1] - tt[k]) * 1e-3
        if D <= 16:
            if cache is not None and np.array_equal(cache[0], H) and cache[1] == dt:
                P = cache[2]
            else:
                P = sla.expm(ref.liouvillian(H, jumps) * dt)
                cache = (H, dt, P)
            rho = (P @ rho.reshape(-1)).reshape(D, D)
        else:
            L = ref.liouvillian(H, jumps)
            rho = expm_multiply(L * dt, rho.reshape(-1)).reshape(D, D)
        out.append(rho)
    return out, hams


# ----------------------------------------------------------------------------- reading Results
def state_to_dense(state):
    """StateVector -> vector, DensityMatrix -> matrix, MPS -> vector (emu order)."""
    if hasattr(state, "factors"):
        return ref.mps_to_dense([ref.t2n(f) for f in state.factors])
    return ref.t2n(state.data)


def to_np(v):
    import torch

    if isinstance(v, torch.Tensor):
        return v.detach().cpu().numpy()
    return np.asarray(v)


def time_index(snap, t_rel):
    tt = np.asarray(snap["target_times"])
    k = int(np.argmin(np.abs(tt - t_rel * tt[-1])))
    return k, float(abs(tt[k] - t_rel * tt[-1]))


def ref_observables(psi_or_rho, H, n, d):
    x = np.asarray(psi_or_rho)
    out = {}
    if x.ndim == 1:
        nrm2 = float(np.vdot(x, x).real)
        p = np.abs(x) ** 2 / nrm2
        Hx = H @ x
        out["energy"] = float(np.vdot(x, Hx).real) / nrm2
        out["energy_second_moment"] = float(np.vdot(Hx, Hx).real) / nrm2
    else:
        tr = float(np.trace(x).real)
        p = np.real(np.diag(x)) / tr
        out["energy"] = float(np.trace(H @ x).real) / tr
        out["energy_second_moment"] = float(np.trace(H @ H @ x).real) / tr
    out["energy_variance"] = out["energy_second_moment"] - out["energy"] ** 2
    out["correlation_matrix"] = ref.correlations_from_probs(p, n, d)
    out["occupation"] = np.diag(out["correlation_matrix"]).copy()
    out["probs"] = p
    return out


def compare_results(results, snap, states, hams, *, state_tol, obs_tol, is_density=False, check_tags=None, alt_hams=None):
    """Compare every stored value with the reference at its time.

    Returns (violations [(key,msg)], worst {name: ratio}, counters).  `states[k]` is the reference state at
    target_times[k]; energies at target time k>0 use hams[k-1] (the step just completed), at k=0 hams[0].
    """
    n = snap["omega"].shape[1]
    d = snap["dim"]
    viol, worst, cnt = [], {}, {"values_compared": 0, "states_compared": 0}
    tags = [t for t in results.get_result_tags() if t != "statistics"]
    for tag in tags:
        base = tag.split("_")[0] if tag.startswith("state") else tag
        if check_tags is not None and base not in check_tags and tag not in check_tags:
            continue
        for t_rel in results.get_result_times(tag):
            k, off = time_index(snap, t_rel)
            if off > 1e-6:
                continue  # misplaced times are judged by C14
            val = results.get_result(tag, t_rel)
            H = hams[k - 1] if k > 0 else hams[0]
            hn = 1.0 + float(np.linalg.norm(H, 2))
            R = ref_observables(states[k], H, n, d)
            if tag == "state":
                got = state_to_dense(val)
                want = states[k]
                err = float(np.linalg.norm(got - want))
                cnt["states_compared"] += 1
                worst["state_err_over_tol"] = max(worst.get("state_err_over_tol", 0.0), err / state_tol)
                if not err <= state_tol:
                    # phase-only difference?
                    ov = np.vdot(want.reshape(-1), got.reshape(-1))
                    rot = got.reshape(-1) * np.exp(-1j * np.angle(ov)) if abs(ov) > 0 else got.reshape(-1)
                    kind = "global-phase-only" if float(np.linalg.norm(rot - want.reshape(-1))) <= state_tol and not is_density else "state"
                    viol.append((f"state-differs-from-exact-evolution:{kind}", f"t={t_rel:.6g} (step {k}/{len(states)-1}) |dpsi|={err:.3e} tol={state_tol:.3e}"))
                continue
            if tag in ("occupation", "correlation_matrix", "energy", "energy_variance", "energy_second_moment"):
                got = to_np(val).astype(float)
                want = R[tag]
                scale = 1.0 if tag in ("occupation", "correlation_matrix") else hn if tag == "energy" else hn * hn
                err = float(np.max(np.abs(got - want))) / scale
                if alt_hams is not None and tag.startswith("energy") and err > obs_tol:
                    # the step straddles the end of the SLM mask: either reading of "the Hamiltonian of that step" is accepted
                    H2 = alt_hams[k - 1] if k > 0 else alt_hams[0]
                    want2 = ref_observables(states[k], H2, n, d)[tag]
                    err2 = float(np.max(np.abs(got - want2))) / scale
                    if err2 < err:
                        err, want = err2, want2
                cnt["values_compared"] += 1
                worst[f"{tag}_err_over_tol"] = max(worst.get(f"{tag}_err_over_tol", 0.0), err / obs_tol)
                if not err <= obs_tol:
                    viol.append((f"{tag}-differs-from-exact-evolution", f"t={t_rel:.6g} (step {k}/{len(states)-1}) err={err:.3e} tol={obs_tol:.3e} got={np.round(got, 6).tolist() if got.size <= 8 else '...'} want={np.round(want, 6).tolist() if np.size(want) <= 8 else '...'}"))
    return viol, worst, cnt


def bitstring_chi2(counter, probs_dict, min_expected=5.0):
    """Pearson statistic of observed counts vs probabilities with small cells merged. Returns (chi2, dof, impossible)."""
    total = sum(counter.values())
    impossible = [s for s in counter if probs_dict.get(s, 0.0) <= 1e-12]
    cells = []
    rest_o = rest_e = 0.0
    for s, p in probs_dict.items():
        e = p * total
        o = counter.get(s, 0)
        if e >= min_expected:
            cells.append((o, e))
        else:
            rest_o += o
            rest_e += e
    if rest_e > 0:
        cells.append((rest_o, rest_e))
    chi2 = sum((o - e) ** 2 / e for o, e in cells if e > 0)
    return chi2, max(1, len(cells) - 1), impossible


# ----------------------------------------------------------------------------- in-situ Krylov monitor
@contextlib.contextmanager
def krylov_recording(max_dim=1100):
    """Record every `krylov_exp_impl` call made while the context is active (input copy, output, flags)."""
    import importlib

    ke = importlib.import_module("emu_base.math.krylov_exp")
    orig = ke.krylov_exp_impl
    calls = []

    def wrapper(op, v, *args, **kwargs):
        vin = v.detach().clone().numpy() if v.numel() <= max_dim else None
        r = orig(op, v, *args, **kwargs)
        tol = kwargs.get("exp_tolerance", args[1] if len(args) > 1 else None)
        calls.append({"vin": vin, "out": r.result.detach().numpy().copy() if vin is not None else None, "converged": bool(r.converged),
                      "happy": bool(r.happy_breakdown), "iters": int(r.iteration_count), "tol": tol})
        return r

    ke.krylov_exp_impl = wrapper
    try:
        yield calls
    finally:
        ke.krylov_exp_impl = orig


def krylov_step_excess(calls, hams, target_times, gens=None):
    """Per-step true local error of the Krylov routine in an emu-sv run (one call per step, in order).

    Noiseless: pass the step Hamiltonians `hams` (A = -i dt H, Hermitian flag True). Open system: pass `gens`, the dense
    generators of d vec(rho)/dt per step (A = dt * gens[k], flag False).
    Returns (excess_total, n_known_mechanism, other [(step, err, tol)]): `excess_total` sums (err - 10 tol) over the
    steps whose inaccuracy is explained by the pinned algorithm itself (vlib.krylov_model replica: same stop, same
    vector - the known optimistic-estimate finding); `other` lists steps inaccurate for any other reason.
    """
    import scipy.linalg as sla

    from vlib import krylov_model

    excess, known, other = 0.0, 0, []
    ops = hams if gens is None else gens
    if len(calls) != len(ops):
        return 0.0, 0, [(-1, float("nan"), float("nan"))]
    for k, (c, G) in enumerate(zip(calls, ops)):
        if c["vin"] is None or not c["converged"]:
            continue
        dt = (target_times[k + 1] - target_times[k]) * 1e-3
        vin = c["vin"].reshape(-1)
        if gens is None:
            want = ref.expm_herm(G, dt) @ vin
            A = -1j * dt * G
            herm = True
        else:
            A = dt * G
            want = sla.expm(A) @ vin
            herm = False
        nv = float(np.linalg.norm(vin))
        err = float(np.linalg.norm(c["out"].reshape(-1) - want)) / nv
        a2 = float(np.linalg.norm(A, 2))
        nonherm = 0.0
        if gens is not None:
            # RydbergLindbladian.__matmul__ forms X - X^dagger: it is the Lindblad generator on Hermitian input only. The anti-Hermitian
            # part of the incoming matrix (left by earlier steps, bounded separately by the physicality monitor) is propagated by a
            # different, norm-preserving map, so input and reference may differ by twice its norm.
            D = int(round(np.sqrt(vin.size)))
            X = vin.reshape(D, D)
            nonherm = 4.0 * float(np.linalg.norm(X - X.conj().T)) / 2.0 / nv
        # rounding floor of the Lanczos/Arnoldi recurrence itself grows with |A| (seen: |A| = 115 for a step as long as the whole sequence,
        # 8-dimensional space: torch and numpy runs of the SAME recurrence differ by 3e-9 at the stopping iteration, error 1.4e-9)
        if err <= 10 * c["tol"] + 2e-11 * (1 + a2) + 2e-10 + nonherm:  # 2e-10: accuracy floor of torch.linalg.matrix_exp (see C07)
            continue
        if not c["happy"] and krylov_model.explained_by_pinned_algorithm(A, vin, herm, c["tol"], c["tol"], 100, c["out"], c["iters"]):
            excess += (err - 10 * c["tol"]) * nv
            known += 1
        else:
            other.append((k, err, c["tol"]))
    return excess, known, other


def get_at(results, tag, t_rel, tol=1e-9):
    """value stored for `tag` at the stored time closest to t_rel (stored times carry rounding from the relative/absolute conversion)"""
    times = results.get_result_times(tag)
    tn_ = min(times, key=lambda x: abs(float(x) - t_rel))
    if abs(float(tn_) - t_rel) > max(tol, 1e-6):
        raise ValueError(f"{tag} not stored near t={t_rel}: {times}")
    return results.get_result(tag, tn_)
