"""Shard worker: python -m vlib.worker <ID> <in.json> <out.jsonl>

For each case calls mod.run_case(case), which returns
    {"fp": str|None, "nontrivial": bool, "violations": [{"key","msg","detail"}],
     "counters": {name:int}, "max": {name:float}, "sample": any|None}
A Python exception escaping run_case is a *harness* error (inconclusive), never a
verdict: the code under test is always called inside the property's own try blocks.
"""
import importlib
import json
import sys
import time
import traceback


def main():
    prop_id, inp, out = sys.argv[1:4]
    from vlib import env

    env.setup()
    mod = importlib.import_module(f"vlib.props.{prop_id}")
    with open(inp) as f:
        cases = json.load(f)
    init = getattr(mod, "worker_init", None)
    if init:
        init()
    with open(out, "w") as fo:
        for case in cases:
            t0 = time.time()
            try:
                env.seed_all(int(case.get("seed", 0)))
                env.restore_dependency_globals()
                r = mod.run_case(case)
            except BaseException as e:  # noqa
                r = {
                    "fp": None,
                    "nontrivial": False,
                    "violations": [],
                    "harness_error": f"{type(e).__name__}: {e}\n{traceback.format_exc()[-1500:]}",
                }
                if isinstance(e, KeyboardInterrupt):
                    raise
            r["idx"] = case.get("idx")
            r["t"] = round(time.time() - t0, 3)
            fo.write(json.dumps(r, default=str) + "\n")
            fo.flush()


if __name__ == "__main__":
    main()
