"""Independent reading of a Pulser sequence (R-P in DESIGN.md): what `SequenceData` *should* contain, computed
from pulser-core's own objects (sampler output, register, device constants) and scipy - never from emu_base.
"""
from __future__ import annotations

import math

import numpy as np


def rand_eval_times(rng, style, duration, dt):
    """evaluation-time generator shared by C14/C21 (relative times in [0,1], strictly increasing)"""
    if style == "ends":
        ts = [0.0, 1.0]
    elif style == "one":
        ts = [1.0]
    elif style == "grid":  # mathematically multiples of dt
        k = max(1, int(duration // dt))
        ts = sorted({float(i) * dt / duration for i in rng.integers(0, k + 1, size=5)})
    elif style == "rational":
        m = int(rng.integers(2, 13))
        ts = sorted({j / m for j in range(m + 1) if rng.random() < 0.6} | {1.0})
    elif style == "irrational":
        ts = sorted({float(x) for x in rng.random(int(rng.integers(1, 5)))} | {1 / math.pi})
    elif style == "lastns":  # inside the final nanosecond
        ts = sorted({1.0 - float(x) / duration for x in rng.uniform(0, 1, size=2)} | {1.0})
    elif style == "dense":
        ts = [float(x) for x in np.linspace(0, 1, int(rng.integers(5, 40)))]
    else:
        raise ValueError(style)
    ts = [min(1.0, max(0.0, t)) for t in ts]
    out = []
    for t in sorted(set(ts)):
        if not out or t - out[-1] > 1e-9:
            out.append(t)
    return out


EVAL_STYLES = ["ends", "one", "grid", "rational", "irrational", "lastns", "dense"]


def requested_times(config):
    """set of relative times at which some observable is requested"""
    req = set()
    for obs in config.observables:
        if obs.evaluation_times is not None:
            req |= {float(t) for t in obs.evaluation_times}
        else:
            req |= {float(t) for t in config.default_evaluation_times}
    return req


def expected_duration(seq, with_modulation):
    return float(seq.get_duration(include_fall_time=with_modulation))


def per_atom_samples(sequence_samples, qubit_ids, T):
    """dict name -> (T, n) arrays keyed by qubit id order; atoms no channel addresses are all-zero"""
    nd = sequence_samples.to_nested_dict(all_local=True)["Local"]
    assert len(nd) <= 1
    basis = next(iter(nd.values())) if nd else {}
    out = {k: np.zeros((T, len(qubit_ids))) for k in ("amp", "det", "phase")}
    for j, q in enumerate(qubit_ids):
        if q in basis:
            for k in out:
                a = np.real(np.asarray(basis[q][k], dtype=complex))
                out[k][: len(a), j] = a[:T]
    return out, set(basis.keys())


def expected_drives(sequence_samples, qubit_ids, target_times):
    """scipy PCHIP of Pulser's per-atom 1-ns samples at the step midpoints; amplitude floored at 0."""
    from scipy.interpolate import PchipInterpolator

    T = int(round(target_times[-1]))
    samp, addressed = per_atom_samples(sequence_samples, qubit_ids, T)
    tt = np.asarray(target_times, dtype=float)
    mid = 0.5 * (tt[:-1] + tt[1:])
    grid = np.arange(T, dtype=float)
    out = {}
    for k, arr in samp.items():
        res = np.zeros((len(mid), len(qubit_ids)))
        for j in range(len(qubit_ids)):
            if T >= 2:
                res[:, j] = PchipInterpolator(grid, arr[:, j], extrapolate=True)(mid)
            else:
                res[:, j] = arr[0, j]
        out[k] = res
    raw_amp = out["amp"].copy()
    out["amp"] = np.maximum(out["amp"], 0.0)
    return out, raw_amp, addressed


def expected_interactions(seq, kind, with_coeff=True):
    """register-defined interaction matrix in Pulser's convention (rad/us), atoms in register order"""
    ids = list(seq.register.qubit_ids)
    pos = np.array([np.asarray(seq.register.qubits[q].as_array() if hasattr(seq.register.qubits[q], "as_array") else seq.register.qubits[q], dtype=float) for q in ids])
    n = len(ids)
    U = np.zeros((n, n))
    for i in range(n):
        for j in range(i + 1, n):
            diff = pos[i] - pos[j]
            r = float(np.linalg.norm(diff))
            if kind == "rydberg":
                v = seq.device.interaction_coeff / r ** 6
            else:
                mag = np.asarray(seq.magnetic_field, dtype=float)
                d3 = np.concatenate([diff, [0.0]]) if len(diff) == 2 else diff
                cosine = float(np.dot(d3, mag) / (np.linalg.norm(d3) * np.linalg.norm(mag)))
                v = seq.device.interaction_coeff_xy * (1 - 3 * cosine ** 2) / r ** 3
            U[i, j] = U[j, i] = v
    return U
