"""Explicit, JSON-serialisable Pulser sequence specifications and their seeded generator.

A *spec* spells out everything (atoms in insertion order, channel operations, waveforms), so a case can be
replayed, printed as an evidence sample, and transformed (relabelling, rigid motions, phase offsets ...) by
plain dictionary edits before it is built.
"""
from __future__ import annotations

import copy
import math

import numpy as np

TWO_PI = 2 * math.pi


# ----------------------------------------------------------------------------- building
def _device(name):
    from pulser.devices import MockDevice, VirtualDevice

    if name == "mock":
        return MockDevice
    from pulser.channels import DMM, Microwave, Rydberg

    return VirtualDevice(
        name="VModDev", dimensions=2, rydberg_level=60,
        channel_objects=(Rydberg.Global(None, None, mod_bandwidth=6.0), Rydberg.Local(None, None, mod_bandwidth=9.0),
                         Microwave.Global(None, None, mod_bandwidth=7.0)),
        dmm_objects=(DMM(bottom_detuning=None),), supports_slm_mask=True)


def wf_build(w):
    from pulser.waveforms import (BlackmanWaveform, CompositeWaveform, ConstantWaveform, CustomWaveform,
                                  InterpolatedWaveform, RampWaveform)

    k = w[0]
    if k == "const":
        return ConstantWaveform(w[1], w[2])
    if k == "ramp":
        return RampWaveform(w[1], w[2], w[3])
    if k == "blackman":
        return BlackmanWaveform(w[1], w[2])
    if k == "interp":
        return InterpolatedWaveform(w[1], list(w[2]))
    if k == "composite":
        return CompositeWaveform(*[wf_build(x) for x in w[1]])
    if k == "custom":
        return CustomWaveform(np.asarray(w[1], dtype=float))
    raise ValueError(k)


def wf_duration(w):
    if w[0] == "composite":
        return sum(wf_duration(x) for x in w[1])
    if w[0] == "custom":
        return len(w[1])
    return int(w[1])


def build(spec):
    """spec -> pulser.Sequence"""
    from pulser import Pulse, Register, Sequence

    reg = Register({a[0]: (a[1], a[2]) for a in spec["atoms"]})
    seq = Sequence(reg, _device(spec.get("device", "mock")))
    xy = spec["basis"] == "xy"
    if xy:
        seq.declare_channel("g", "mw_global")
        if spec.get("mag") is not None:
            seq.set_magnetic_field(*spec["mag"])
    else:
        if spec.get("has_global", True):
            seq.declare_channel("g", "rydberg_global")
        for ch, tgt in (spec.get("locals") or {}).items():
            seq.declare_channel(ch, "rydberg_local", initial_target=tgt)
    if spec.get("dmm_map"):
        seq.config_detuning_map(reg.define_detuning_map(dict(spec["dmm_map"])), "dmm_0")
    if spec.get("slm"):
        seq.config_slm_mask(list(spec["slm"]))
    for op in spec["ops"]:
        if op["op"] == "pulse":
            p = Pulse(wf_build(op["amp"]), wf_build(op["det"]), op["phase"], post_phase_shift=op.get("pps", 0.0))
            seq.add(p, op["ch"], protocol=op.get("protocol", "min-delay"))
        elif op["op"] == "delay":
            seq.delay(op["dur"], op["ch"])
        elif op["op"] == "target":
            seq.target(op["q"], op["ch"])
        elif op["op"] == "dmm":
            seq.add_dmm_detuning(wf_build(op["wf"]), "dmm_0")
        else:
            raise ValueError(op)
    return seq


# ----------------------------------------------------------------------------- random specs
def positions(rng, n, layout, dmin, spread=1.0):
    if layout == "line":
        d = dmin * rng.uniform(1.0, 1.0 + spread)
        return [(float(i * d), 0.0) for i in range(n)]
    if layout == "ring":
        d = dmin * rng.uniform(1.0, 1.0 + spread)
        r = d / (2 * math.sin(math.pi / n)) if n > 1 else 0.0
        return [(float(r * math.cos(TWO_PI * i / n)), float(r * math.sin(TWO_PI * i / n))) for i in range(n)]
    if layout == "grid":
        d = dmin * rng.uniform(1.0, 1.0 + spread)
        w = int(math.ceil(math.sqrt(n)))
        return [(float((i % w) * d), float((i // w) * d)) for i in range(n)]
    # random 2-D with minimum distance
    pts = []
    box = dmin * (1.0 + spread) * math.sqrt(n) + 1.0
    tries = 0
    while len(pts) < n:
        p = rng.uniform(-box / 2, box / 2, size=2)
        if all(np.hypot(*(p - q)) >= dmin for q in pts):
            pts.append(p)
        tries += 1
        if tries > 4000:
            box *= 1.3
            tries = 0
    return [(float(round(p[0], 3)), float(round(p[1], 3))) for p in pts]


def rand_wf(rng, dur, kind, lo, hi, positive):
    """one waveform of `dur` ns with values in [lo, hi] (area for blackman)"""
    if dur < 2 or (dur < 5 and kind not in ("const", "ramp")):
        kind = "const" if dur < 2 else str(rng.choice(["const", "ramp"]))  # pulser's RampWaveform(1, ..) yields NaN samples
    if kind == "const":
        return ["const", dur, float(rng.uniform(lo, hi))]
    if kind == "ramp":
        return ["ramp", dur, float(rng.uniform(lo, hi)), float(rng.uniform(lo, hi))]
    if kind == "blackman":
        area = float(rng.uniform(0.3, 1.0) * hi * dur * 1e-3 * 0.42)
        return ["blackman", dur, area if positive else area * float(rng.choice([-1, 1]))]
    if kind == "interp":
        k = int(rng.integers(2, 6))
        vals = rng.uniform(lo, hi, size=k)
        if positive and rng.random() < 0.5:
            vals[0] = vals[-1] = 0.0
        return ["interp", dur, [float(v) for v in vals]]
    if kind == "custom":
        t = np.linspace(0, 1, dur)
        a, b, c = rng.uniform(lo, hi), rng.uniform(lo, hi), rng.uniform(0.5, 3)
        s = a + (b - a) * np.sin(c * math.pi * t) ** 2
        return ["custom", [float(round(v, 9)) for v in s]]
    if kind == "composite":
        d1 = int(rng.integers(max(2, dur // 4), max(3, 3 * dur // 4)))
        d1 = min(max(d1, 2), dur - 2)
        k1, k2 = rng.choice(["const", "ramp"], size=2)
        return ["composite", [rand_wf(rng, d1, str(k1), lo, hi, positive), rand_wf(rng, dur - d1, str(k2), lo, hi, positive)]]
    raise ValueError(kind)


WF_KINDS = ["const", "ramp", "blackman", "interp", "custom", "composite"]


def random_spec(rng, *, n, basis="ising", layout=None, dmin=6.0, spread=0.6, n_pulses=None, max_dur=300, min_dur=16,
                local=False, dmm=False, slm=False, modulation=False, phase_mode=None, amp_max=12.0, det_max=20.0,
                wf_kinds=None, shuffle_ids=False, delays=True, has_global=True, lead_delay=0):
    layout = layout or str(rng.choice(["random", "line", "ring", "grid"]))
    pts = positions(rng, n, layout, dmin, spread)
    ids = [f"q{i}" for i in range(n)]
    order = list(range(n))
    if shuffle_ids:
        order = [int(i) for i in rng.permutation(n)]
    atoms = [[ids[k], pts[i][0], pts[i][1]] for k, i in enumerate(order)]
    wf_kinds = wf_kinds or WF_KINDS
    phase_mode = phase_mode or str(rng.choice(["zero", "const", "random", "mixed", "special"]))
    ph0 = float(rng.uniform(0, TWO_PI))
    spec = {"basis": basis, "device": "vmod" if modulation else "mock", "atoms": atoms, "ops": [], "has_global": has_global}
    chans = ["g"] if has_global or basis == "xy" else []
    if local and basis == "ising":
        spec["locals"] = {"l": str(rng.choice(ids))}
        chans.append("l")
    if dmm and basis == "ising" and n >= 1:
        k = int(rng.integers(1, n + 1))
        sel = rng.choice(n, size=k, replace=False)
        w = rng.uniform(0.1, 1.0, size=k)
        w[0] = 1.0
        spec["dmm_map"] = {ids[int(i)]: float(round(x, 4)) for i, x in zip(sel, w)}
    if slm and n >= 2 and not modulation:  # pulser refuses SLM mask + output modulation
        k = int(rng.integers(1, n))
        spec["slm"] = [ids[int(i)] for i in rng.choice(n, size=k, replace=False)]
    if basis == "xy" and rng.random() < 0.5:
        spec["mag"] = [0.0, 0.0, float(rng.uniform(0.5, 30))] if rng.random() < 0.6 else [float(x) for x in rng.uniform(-5, 5, size=3)]
    n_pulses = n_pulses or int(rng.integers(1, 5))
    if lead_delay:  # the first pulse (and with it an SLM mask) does not start at t = 0
        spec["ops"].append({"op": "delay", "ch": chans[0], "dur": int(lead_delay)})
    for _ in range(n_pulses):
        ch = str(rng.choice(chans))
        dur = int(rng.integers(min_dur, max_dur + 1))
        ka, kd = str(rng.choice(wf_kinds)), str(rng.choice(wf_kinds))
        amp = rand_wf(rng, dur, ka, 0.0, amp_max, True)
        dur = wf_duration(amp)
        det = rand_wf(rng, dur, kd if kd != "blackman" else "ramp", -det_max, det_max, False)
        phase = 0.0 if phase_mode == "zero" else ph0 if phase_mode == "const" else float(rng.uniform(0, TWO_PI))
        if phase_mode == "mixed" and rng.random() < 0.5:
            # exact zeros (and exact pi, pi/2) next to generic phases: the emulators have a separate code path for phase == 0,
            # and sin(phase) == 0 without cos(phase) == 1 is the classic shortcut mistake
            phase = float(rng.choice([0.0, 0.0, math.pi, math.pi / 2]))
        if phase_mode == "special":
            phase = float(rng.choice([0.0, math.pi, math.pi / 2, 3 * math.pi / 2]))
        if ch == "l" and rng.random() < 0.5:
            spec["ops"].append({"op": "target", "ch": "l", "q": str(rng.choice(ids))})
        spec["ops"].append({"op": "pulse", "ch": ch, "amp": amp, "det": det, "phase": phase,
                            "protocol": "no-delay" if (ch == "l" and rng.random() < 0.5) else "min-delay"})
        if delays and rng.random() < 0.25:
            spec["ops"].append({"op": "delay", "ch": ch, "dur": int(rng.integers(4, 60))})
        if spec.get("dmm_map") and rng.random() < 0.6:
            d = int(rng.integers(min_dur, max_dur + 1))
            spec["ops"].append({"op": "dmm", "wf": rand_wf(rng, d, str(rng.choice(["const", "ramp"])), -det_max, 0.0, False)})
    return spec


def describe(spec):
    """short structural fingerprint used for 'distinct' counting"""
    kinds = sorted({op["amp"][0] + "/" + op["det"][0] for op in spec["ops"] if op["op"] == "pulse"})
    chs = sorted({op["ch"] for op in spec["ops"] if op["op"] == "pulse"})
    return (f"{spec['basis']}:n{len(spec['atoms'])}:{'+'.join(chs)}:{'dmm' if spec.get('dmm_map') else ''}:"
            f"{'slm' if spec.get('slm') else ''}:{spec.get('device')}:{','.join(kinds)}:"
            f"p{sum(1 for op in spec['ops'] if op['op'] == 'pulse')}")


# ----------------------------------------------------------------------------- transformations
def relabel(spec, mapping):
    s = copy.deepcopy(spec)
    for a in s["atoms"]:
        a[0] = mapping[a[0]]
    if s.get("locals"):
        s["locals"] = {ch: mapping[q] for ch, q in s["locals"].items()}
    if s.get("dmm_map"):
        s["dmm_map"] = {mapping[q]: w for q, w in s["dmm_map"].items()}
    if s.get("slm"):
        s["slm"] = [mapping[q] for q in s["slm"]]
    for op in s["ops"]:
        if op["op"] == "target":
            op["q"] = mapping[op["q"]]
    return s


def reorder(spec, perm):
    """register insertion order permuted (ids keep their positions)"""
    s = copy.deepcopy(spec)
    s["atoms"] = [s["atoms"][i] for i in perm]
    return s


def move(spec, *, angle=0.0, shift=(0.0, 0.0), mirror=False):
    s = copy.deepcopy(spec)
    c, sn = math.cos(angle), math.sin(angle)
    for a in s["atoms"]:
        x, y = a[1], a[2]
        if mirror:
            x = -x
        a[1], a[2] = c * x - sn * y + shift[0], sn * x + c * y + shift[1]
    return s


def phase_offset(spec, phi0):
    s = copy.deepcopy(spec)
    for op in s["ops"]:
        if op["op"] == "pulse":
            op["phase"] = op["phase"] + phi0
    return s
