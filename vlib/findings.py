"""known_findings.json: committed, read-only at run time.

Entries: {"property", "key", "status": "open"|"fixed", "what", "commit"?}. `key` is a
mechanism signature produced by a check's classifier (never a seed or a value). Only
"open" entries turn a matching violation into a KNOWN-FINDING line; "fixed" entries
suppress nothing.
"""
import json
import os

from vlib import env

PATH = os.path.join(env.VERIF_DIR, "known_findings.json")


def load():
    if not os.path.exists(PATH):
        return []
    with open(PATH) as f:
        return json.load(f)["findings"]


def match(known, prop_id, key):
    for e in known:
        if e["property"] == prop_id and e["key"] == key and e.get("status") == "open":
            return e
    return None
