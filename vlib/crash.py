"""Crash-injection and clock control for the emu-mps autosave machinery (C26, C27).

* `fake_clock()` replaces the `time` name inside emu_mps.mps_backend_impl / emu_mps.mps_backend by an object whose
  `time()` advances 11 s per call: with `autosave_dt=10.5` every `progress()` ends with an autosave.
* `FsInterposer` replaces `open`, `os` and `pickle` *names in emu_mps.mps_backend_impl* by recording proxies that can
  stop the process (raise `Crash`, a BaseException) before/after a chosen file-system event of a chosen autosave, or
  cut `pickle.dump` after half of its bytes - leaving the directory exactly as a killed process would.
"""
import contextlib
import io
import os
import pickle
import shutil
import tempfile


class Crash(BaseException):
    """Simulated process death (BaseException: nothing in the code under test catches it)."""


class _Clock:
    def __init__(self):
        self.t = 1.0e9

    def time(self):
        self.t += 11.0
        return self.t

    def __getattr__(self, name):
        import time as _t

        return getattr(_t, name)


@contextlib.contextmanager
def fake_clock():
    import emu_mps.mps_backend as mb
    import emu_mps.mps_backend_impl as mpi

    clk = _Clock()
    o1, o2 = mpi.time, mb.time
    mpi.time = clk
    mb.time = clk
    try:
        yield clk
    finally:
        mpi.time, mb.time = o1, o2


@contextlib.contextmanager
def workdir():
    """run inside a private scratch directory (the autosave file is created in the cwd)"""
    from vlib import env

    base = os.path.join(env.VERIF_DIR, ".work")
    os.makedirs(base, exist_ok=True)
    d = tempfile.mkdtemp(prefix="autosave_", dir=base)
    old = os.getcwd()
    os.chdir(d)
    try:
        yield d
    finally:
        os.chdir(old)
        shutil.rmtree(d, ignore_errors=True)


class FsInterposer:
    """Records the file-system events of every `save_simulation` and can crash at a chosen one.

    Events per save, in program order: ("open", path), ("dump", path), ("close", path), then whatever `os` calls the
    code makes on autosave paths: ("replace"|"rename"|"remove", src[, dst]).  `crash_at=(save_index, event_index,
    when)` with when in {"before", "after", "half"} ("half" only for the dump event: half of the bytes reach the file).
    """

    def __init__(self, crash_at=None):
        self.crash_at = crash_at
        self.saves = []      # list of event lists
        self._cur = None
        self.crashed = None

    # -- wiring
    def install(self):
        import emu_mps.mps_backend_impl as mpi

        self.mpi = mpi
        self._orig = {"os": mpi.os, "pickle": mpi.pickle, "open": mpi.__dict__.get("open"), "save": mpi.MPSBackendImpl.save_simulation}
        ip = self

        class OsProxy:
            def __getattr__(self, name):
                real = getattr(os, name)
                if name in ("replace", "rename", "remove", "unlink"):
                    def wrapped(*a, **k):
                        return ip._event(name, [str(x) for x in a], lambda: real(*a, **k))
                    return wrapped
                return real

        class PickleProxy:
            def __getattr__(self, name):
                return getattr(pickle, name)

            @staticmethod
            def dump(obj, fh, *a, **k):
                def full():
                    return pickle.dump(obj, fh, *a, **k)

                def half():
                    data = pickle.dumps(obj, *a, **k)
                    fh.write(data[: max(1, len(data) // 2)])
                    fh.flush()

                return ip._event("dump", [getattr(fh, "name", "?")], full, half)

        def open_proxy(path, mode="r", *a, **k):
            if "w" in mode and ip._cur is not None:
                def do():
                    return io.open(path, mode, *a, **k)
                return ip._event("open", [str(path)], do)
            return io.open(path, mode, *a, **k)

        mpi.os = OsProxy()
        mpi.pickle = PickleProxy()
        mpi.open = open_proxy
        orig_save = self._orig["save"]

        def save(impl):
            ip._cur = []
            try:
                return orig_save(impl)
            finally:
                if ip._cur:  # a save that was not due records nothing
                    ip.saves.append(ip._cur)
                ip._cur = None

        mpi.MPSBackendImpl.save_simulation = save
        return self

    def remove(self):
        mpi = self.mpi
        mpi.os, mpi.pickle = self._orig["os"], self._orig["pickle"]
        if self._orig["open"] is None:
            mpi.__dict__.pop("open", None)
        else:
            mpi.open = self._orig["open"]
        mpi.MPSBackendImpl.save_simulation = self._orig["save"]

    # -- events
    def _event(self, kind, args, do, half=None):
        if self._cur is None:
            return do()
        s, e = len(self.saves), len(self._cur)
        self._cur.append((kind, args))
        if self.crash_at is not None and self.crash_at[0] == s and self.crash_at[1] == e:
            when = self.crash_at[2]
            self.crashed = (s, e, kind, when)
            if when == "before":
                raise Crash(f"before {kind} of save {s}")
            if when == "half" and half is not None:
                half()
                raise Crash(f"in the middle of {kind} of save {s}")
            r = do()
            raise Crash(f"after {kind} of save {s}")
        return do()


def listing(d):
    return sorted(os.listdir(d))
