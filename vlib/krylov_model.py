"""Numpy replica of the pinned `krylov_exp_impl` algorithm (same recurrence, same Expokit-style estimate, same
stopping rule, same result assembly).  It is used only to *classify* an accuracy violation, never to decide one:

    a converged result whose true error exceeds 10*tol is attributed to the known finding "the a-posteriori error
    estimate is optimistic" iff the replica (i) stops at the same iteration and (ii) produces the same vector.

An implementation change to the stopping rule, the estimate or the result assembly makes the real routine deviate
from the replica, so its violations are NOT attributed to the known finding.
"""
import numpy as np
import scipy.linalg as sla


def replica(A, v, is_hermitian, exp_tol, norm_tol, kmax, force_stop=None):
    """returns (result, converged, happy_breakdown, iterations); with force_stop=k the stopping rule is replaced by "stop after iteration k"
    and the value of the error estimate at that iteration is stored in replica.last_estimate"""
    v = np.asarray(v, dtype=complex).reshape(-1)
    n0 = np.linalg.norm(v)
    V = [v / n0]
    T = np.zeros((kmax + 2, kmax + 2), dtype=complex)
    expd = None
    for j in range(kmax):
        w = A @ V[-1]
        n = np.linalg.norm(w)
        k_start = max(0, j - 1) if is_hermitian else 0
        for k in range(k_start, j + 1):
            ov = np.vdot(V[k], w)
            T[k, j] = ov
            w = w - ov * V[k]
        n2 = np.linalg.norm(w)
        T[j + 1, j] = n2
        if n2 < norm_tol:
            expd = sla.expm(T[: j + 1, : j + 1])
            res = n0 * sum(a * b for a, b in zip(expd[:, 0], V))
            return res, True, True, j + 1
        V.append(w / n2)
        T[j + 2, j + 1] = 1
        expd = sla.expm(T[: j + 3, : j + 3])
        err1 = abs(expd[j + 1, 0])
        err2 = abs(expd[j + 2, 0] * n)
        err = err1 if err1 < err2 else (err1 * err2 / (err1 - err2))
        replica.last_estimate = float(err)
        if (force_stop is None and err < exp_tol) or (force_stop is not None and j + 1 == force_stop):
            res = n0 * sum(a * b for a, b in zip(expd[: len(V), 0], V))
            return res, True, False, j + 1
    res = n0 * sum(a * b for a, b in zip(expd[: len(V), 0], V))
    return res, False, False, kmax


def explained_by_pinned_algorithm(A, v, is_hermitian, exp_tol, norm_tol, kmax, got_result, got_iterations):
    """True iff the real routine did exactly what the pinned algorithm prescribes (same stop, same vector)."""
    try:
        res, conv, happy, it = replica(np.asarray(A), v, is_hermitian, exp_tol, norm_tol, kmax)
    except Exception:
        return False
    nv = np.linalg.norm(np.asarray(v).reshape(-1))
    if conv and not happy and it != got_iterations and abs(it - got_iterations) <= 2:
        # borderline estimate: with a large |A| the recurrence runs past the dimension of the invariant subspace and the estimate at the
        # real stopping iteration sits within rounding of the tolerance, so the torch and numpy runs can stop one iteration apart. The real
        # routine is still "the pinned algorithm" if, stopped at ITS iteration, the replica gives the same vector and an estimate <= 2*tol.
        try:
            res2, conv2, happy2, it2 = replica(np.asarray(A), v, is_hermitian, exp_tol, norm_tol, kmax, force_stop=got_iterations)
        except Exception:
            return False
        return bool(conv2 and not happy2 and it2 == got_iterations and replica.last_estimate <= 2 * exp_tol
                    and np.linalg.norm(res2 - np.asarray(got_result).reshape(-1)) <= (0.01 * exp_tol + 1e-13 + 1e-15 * np.linalg.norm(np.asarray(A), 2)) * nv)
    if not conv or happy or it != got_iterations:
        return False
    # the replica's vector must coincide with the real one far below the deviation being explained (> 10*tol)
    return bool(np.linalg.norm(res - np.asarray(got_result).reshape(-1)) <= (0.01 * exp_tol + 1e-13) * nv)
