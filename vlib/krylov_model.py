"""Numpy model of the Expokit-style error estimate used by `krylov_exp_impl`, used only to *classify* an
accuracy violation (never to decide one): was convergence declared early because the estimate multiplies by
|A v_j| (norm of the operator applied to the *current* Krylov vector) where Expokit uses |A v_{j+1}|?
"""
import numpy as np
import scipy.linalg as sla


def estimates(A, v, kmax):
    """Arnoldi on dense A from v. Returns per iteration j: (err_as_coded, err_with_proper_avnorm, breakdown)."""
    D = A.shape[0]
    v = np.asarray(v, dtype=complex).reshape(-1)
    V = [v / np.linalg.norm(v)]
    T = np.zeros((kmax + 2, kmax + 2), dtype=complex)
    out = []
    for j in range(min(kmax, D + 1)):
        w = A @ V[-1]
        n = np.linalg.norm(w)
        for k in range(j + 1):
            ov = np.vdot(V[k], w)
            T[k, j] = ov
            w = w - ov * V[k]
        n2 = np.linalg.norm(w)
        T[j + 1, j] = n2
        if n2 < 1e-14 * max(1.0, n):
            out.append((0.0, 0.0, True))
            break
        V.append(w / n2)
        T[j + 2, j + 1] = 1
        expd = sla.expm(T[: j + 3, : j + 3])
        T[j + 2, j + 1] = 0
        err1 = abs(expd[j + 1, 0])
        n_next = np.linalg.norm(A @ V[-1])

        def comb(e1, e2):
            return e1 if e1 < e2 else (e1 * e2 / (e1 - e2) if e1 != e2 else np.inf)

        out.append((comb(err1, abs(expd[j + 2, 0] * n)), comb(err1, abs(expd[j + 2, 0] * n_next)), False))
    return out


def early_stop_is_avnorm_mechanism(A, v, iteration_count, tol):
    """True iff at the reported iteration the coded estimate is below tol while the proper one is not."""
    try:
        est = estimates(A, v, iteration_count)
    except Exception:
        return False
    if len(est) < iteration_count:
        return False
    coded, proper, bd = est[iteration_count - 1]
    return (not bd) and coded < tol * 1.5 and proper >= tol
