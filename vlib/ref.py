"""Independent dense reference models (numpy, complex128).

Written from Pulser's documented conventions, never by calling emulator code.

Basis convention of the emulators ("emu order"): per atom index 0 = ground ('g' / '0'),
1 = excited ('r' / '1'), 2 = leakage 'x'; atom 0 is the most significant digit.

Pulser's convention (docs "Conventions"): H = sum_j Omega_j/2 (e^{i phi_j}|r><g| ... )
precisely  H = (Omega/2) e^{-i phi}|g><r| + h.c. - delta |r><r| + sum_{i<j} U_ij n_i n_j
i.e. <r|H|g> = (Omega/2) e^{+i phi}.  XY: sum_{i<j} U_ij (s+_i s-_j + h.c.) with '1' the
excited state, drive (Omega/2)(e^{-i phi}|0><1| + h.c.) - delta |1><1|.
"""
from __future__ import annotations

import numpy as np
import scipy.linalg as sla

C = np.complex128


def op_on(site_op: np.ndarray, i: int, n: int, d: int = 2) -> np.ndarray:
    """site_op acting on atom i of n (atom 0 most significant)."""
    out = np.eye(1, dtype=C)
    for k in range(n):
        out = np.kron(out, site_op if k == i else np.eye(d, dtype=C))
    return out


def op_on2(a: np.ndarray, i: int, b: np.ndarray, j: int, n: int, d: int = 2) -> np.ndarray:
    """a on atom i times b on atom j (i != j), as one Kronecker chain (no dense matmul)."""
    out = np.eye(1, dtype=C)
    for k in range(n):
        out = np.kron(out, a if k == i else (b if k == j else np.eye(d, dtype=C)))
    return out


def proj(a: int, b: int, d: int = 2) -> np.ndarray:
    m = np.zeros((d, d), dtype=C)
    m[a, b] = 1.0
    return m


def dense_interaction(U, *, kind="rydberg", d=2) -> np.ndarray:
    """Two-body part: sum_{i<j} U_ij n_i n_j  or  sum_{i<j} U_ij (s+_i s-_j + h.c.)."""
    U = np.asarray(U, dtype=float)
    n = U.shape[0]
    D = d**n
    H = np.zeros((D, D), dtype=C)
    rg = proj(1, 0, d)
    nn = proj(1, 1, d)
    for i in range(n):
        for j in range(i + 1, n):
            if U[i, j] == 0:
                continue
            if kind == "rydberg":
                H += U[i, j] * op_on2(nn, i, nn, j, n, d)
            elif kind == "xy":
                t = op_on2(rg, i, rg.conj().T, j, n, d)
                H += U[i, j] * (t + t.conj().T)
            else:
                raise ValueError(kind)
    return H


def dense_hamiltonian(omega, delta, phi, U, *, kind="rydberg", d=2, noise=None, interaction=None) -> np.ndarray:
    """Dense neutral-atom Hamiltonian in emu order.

    omega, delta, phi: length-n real arrays; U: n x n (only i<j upper entries used,
    symmetrised by the caller); noise: optional d x d single-atom term added on every
    atom (e.g. -i/2 sum L^dag L).
    """
    omega = np.asarray(omega, dtype=float)
    delta = np.asarray(delta, dtype=float)
    phi = np.asarray(phi, dtype=float)
    U = np.asarray(U, dtype=float)
    n = len(omega)
    D = d**n
    H = np.zeros((D, D), dtype=C)
    rg = proj(1, 0, d)  # |r><g|
    nn = proj(1, 1, d)
    for j in range(n):
        drive = 0.5 * omega[j] * np.exp(1j * phi[j]) * rg
        site = drive + drive.conj().T - delta[j] * nn
        if noise is not None:
            site = site + np.asarray(noise, dtype=C)
        H += op_on(site, j, n, d)
    H += dense_interaction(U, kind=kind, d=d) if interaction is None else interaction
    return H


def expm_herm(H: np.ndarray, t: float) -> np.ndarray:
    w, v = np.linalg.eigh(H)
    return (v * np.exp(-1j * w * t)) @ v.conj().T


def expm_general(A: np.ndarray) -> np.ndarray:
    return sla.expm(A)


def liouvillian(H: np.ndarray, jumps: list[np.ndarray]) -> np.ndarray:
    """Row-major vectorised Lindblad generator: d rho/dt = L vec(rho), vec row-major.

    vec(A rho B) = (A kron B^T) vec(rho) for row-major vec.
    """
    D = H.shape[0]
    I = np.eye(D, dtype=C)
    L = -1j * (np.kron(H, I) - np.kron(I, H.T))
    for J in jumps:
        JdJ = J.conj().T @ J
        L += np.kron(J, J.conj()) - 0.5 * np.kron(JdJ, I) - 0.5 * np.kron(I, JdJ.T)
    return L


def lindblad_rhs(H: np.ndarray, jumps: list[np.ndarray], rho: np.ndarray) -> np.ndarray:
    out = -1j * (H @ rho - rho @ H)
    for J in jumps:
        JdJ = J.conj().T @ J
        out += J @ rho @ J.conj().T - 0.5 * (JdJ @ rho + rho @ JdJ)
    return out


def local_jumps(single_ops: list[np.ndarray], n: int, d: int = 2) -> list[np.ndarray]:
    return [op_on(np.asarray(L, dtype=C), q, n, d) for q in range(n) for L in single_ops]


# ---------------------------------------------------------------- tensor networks
def mps_to_dense(factors) -> np.ndarray:
    """Contract MPS factors (list of arrays (Dl, d, Dr)) into a dense vector."""
    acc = np.ones((1, 1), dtype=C)
    for f in factors:
        f = np.asarray(f, dtype=C)
        acc = np.tensordot(acc, f, axes=([acc.ndim - 1], [0]))
        acc = acc.reshape(-1, f.shape[2])
    return acc.reshape(-1)


def mpo_to_dense(factors) -> np.ndarray:
    """Contract MPO factors (Dl, d_out, d_in, Dr) into a dense matrix."""
    acc = np.ones((1, 1, 1), dtype=C)  # (out, in, bond)
    for f in factors:
        f = np.asarray(f, dtype=C)
        acc = np.einsum("oib,bpqc->opiqc", acc, f)
        o, p, i, q, c = acc.shape
        acc = acc.reshape(o * p, i * q, c)
    return acc[:, :, 0]


def t2n(t) -> np.ndarray:
    return t.detach().cpu().numpy()


# ---------------------------------------------------------------- observables
def occupations(psi: np.ndarray, n: int, d: int = 2) -> np.ndarray:
    p = np.abs(psi.reshape([d] * n)) ** 2
    out = np.zeros(n)
    for i in range(n):
        out[i] = np.take(p, 1, axis=i).sum()
    return out


def occupations_rho(rho: np.ndarray, n: int, d: int = 2) -> np.ndarray:
    p = np.real(np.diag(rho)).reshape([d] * n)
    return np.array([np.take(p, 1, axis=i).sum() for i in range(n)])


def correlations_from_probs(p: np.ndarray, n: int, d: int = 2) -> np.ndarray:
    p = p.reshape([d] * n)
    out = np.zeros((n, n))
    for i in range(n):
        pi = np.take(p, 1, axis=i)
        out[i, i] = pi.sum()
        for j in range(i + 1, n):
            out[i, j] = out[j, i] = np.take(pi, 1, axis=j - 1).sum()
    return out


def correlations(psi: np.ndarray, n: int, d: int = 2) -> np.ndarray:
    return correlations_from_probs(np.abs(psi) ** 2, n, d)


def bit_probs(p: np.ndarray, n: int, d: int = 2) -> dict:
    """Measurement distribution over bitstrings ('1' = excited, everything else '0')."""
    out: dict[str, float] = {}
    p = np.asarray(p, dtype=float).reshape(-1)
    for idx, v in enumerate(p):
        if v == 0:
            continue
        digits = []
        r = idx
        for _ in range(n):
            digits.append(r % d)
            r //= d
        s = "".join("1" if x == 1 else "0" for x in reversed(digits))
        out[s] = out.get(s, 0.0) + float(v)
    return out
