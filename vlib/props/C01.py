"""C01 — emu-sv noiseless runs reproduce the Pulser Hamiltonian dynamics.

Monitor: boundary recorder on `SVBackend._run_from_sequence_data` (the `SequenceData` the solver was given, deep
copied before the call, and the `Results` it returned) + dense reference: exact evolution under the piecewise
constant Hamiltonian built from that `SequenceData`.  The other half of the property (the `SequenceData` is what
Pulser's samples define) is decided by C21-C23; a 1-ns reference built directly from Pulser's own samples bounds
the discretisation error at dt=1.
"""
import numpy as np

from vlib import e2e, ref, seqgen

ID = "C01"
LEVEL = "exploration"
ENGINE = "e2e-reference"
TECHNIQUE = "boundary recorder on SVBackend._run_from_sequence_data + dense exact-evolution reference model; Pulser-sample 1-ns reference for the discretisation clause"
LEVEL_TEXT = ("Exploration: every generated noiseless ground-rydberg sequence (random 2-D registers 1-8 atoms (thorough 10), all waveform "
              "kinds, phases, local channel, DMM, SLM, modulation, dt in {0.5..>duration}, krylov tolerances, evaluation-time sets, random "
              "initial states) is run through the real SVBackend; state, occupation, correlation, energy, second moment and variance at "
              "every stored time are compared with exact evolution of the recorded piecewise-constant Hamiltonian.")
LEVEL_NOTE = ("Pulser's QutipEmulator is not installed: the 'agrees with Pulser's reference emulator' clause is decided as (i) this check + "
              "(ii) C21-C23 (SequenceData equals Pulser's samples) + a sanity bound against a 1-ns reference built from pulser.sampler samples.")
RULE = ("seeded sequence specs (vlib/seqgen.py): N, layout, channels {global, local, dmm, slm}, waveform kinds, phase mode, modulation, dt, "
        "krylov_tolerance, evaluation times, initial state. distinct = structural fingerprint (N, channels, waveform kinds, #pulses, device, "
        "dt class, eval-time style, initial state); non-trivial = final state differs from the initial one by > 1e-3 and >= 2 distinct "
        "step Hamiltonians were applied")
ASSUMPTIONS = [
    "reference = exact evolution (eigh) of the dense Hamiltonian in Pulser's documented convention (vlib/ref.py)",
    "tolerance |dpsi| <= n_steps*(10*krylov_tolerance + 2e-10) + 1e-9 (2e-10 = measured accuracy floor of torch.linalg.matrix_exp); observables the same times (1+|H|) resp. (1+|H|)^2",
    "when the SLM mask ends strictly inside a step, the step may use the interaction matrix of its start or of its midpoint",
    "QutipEmulator clause replaced by the decomposition described in DESIGN.md 0.1",
]
REQUIRED = ["runs", "states_compared", "values_compared", "sequence_data_recorded"]
SHARD_TIMEOUT = {"quick": 1500, "thorough": 5 * 3600}
MAX_REJECT_FRACTION = 0.3


def gen_cases(tier, seed):
    rng = np.random.default_rng(seed)
    n_cases = 64 if tier == "quick" else 1400
    cases = []
    for i in range(n_cases):
        u = rng.random()
        nmax = 8 if tier == "quick" else 10
        n = int(rng.integers(1, 4)) if u < 0.25 else int(rng.integers(4, 7)) if u < 0.8 else int(rng.integers(7, nmax + 1))
        cases.append({"seed": int(rng.integers(1 << 30)), "n": n,
                      "local": bool(rng.random() < 0.35), "dmm": bool(rng.random() < 0.3), "slm": bool(rng.random() < 0.25 and n >= 2),
                      "modulation": bool(rng.random() < 0.2),
                      "dt": float(rng.choice([0.5, 1, 2.5, 7, 10, 10, 33, 5000])),
                      "ktol": float(10.0 ** float(rng.choice([-6, -8, -10, -10, -12]))),
                      "init": bool(rng.random() < 0.25), "eval_style": str(rng.choice(["grid", "rational", "irrational", "ends", "dense"])),
                      "disc": bool(i % 8 == 0)})
        # where the interaction comes from: the register (default), a user matrix with exact zeros, an all-zero matrix, a cutoff that removes every pair
        if n >= 9:  # dense reference: one 2^n eigendecomposition per distinct step Hamiltonian
            cases[-1]["dt"] = float(rng.choice([10, 33, 5000]))
        elif n >= 7 and cases[-1]["dt"] < 2.5:
            cases[-1]["dt"] = 2.5
        im = str(rng.choice(["register"] * 7 + ["custom-sparse", "zero", "cutoff-all"]))
        cases[-1]["imat"] = im
        if im in ("zero", "cutoff-all") and n >= 2:
            cases[-1].update(local=True, slm=False)  # non-interacting atoms with different drives: the product structure invites shortcuts
    return cases


def eval_times(rng, style, duration, dt):
    if style == "ends":
        return [0.0, 1.0]
    if style == "grid":
        k = max(1, int(duration // max(dt, 1)))
        pts = sorted({min(1.0, float(i * dt / duration)) for i in rng.integers(0, k + 1, size=4)} | {1.0})
        return pts
    if style == "rational":
        m = int(rng.integers(2, 9))
        return sorted({j / m for j in range(m + 1) if rng.random() < 0.7} | {1.0})
    if style == "irrational":
        return sorted({float(x) for x in rng.random(3)} | {float(1 / np.pi), 1.0})
    return [float(x) for x in np.linspace(0, 1, 11)]


def build_run(case):
    """returns (spec, seq, config kwargs) deterministically from the case"""
    rng = np.random.default_rng(case["seed"])
    short = case["dt"] < 1 or case["n"] >= 9
    spec = seqgen.random_spec(rng, n=case["n"], basis="ising", dmin=5.0 if case["n"] <= 6 else 6.0, local=case["local"], dmm=case["dmm"],
                              slm=case["slm"], modulation=case["modulation"], max_dur=80 if short else 250, n_pulses=int(rng.integers(1, 3 if short else 5)))
    return rng, spec


def run_case(case):
    import torch
    from emu_sv import (SVBackend, SVConfig, StateResult, Occupation, CorrelationMatrix, Energy, EnergySecondMoment, EnergyVariance,
                        StateVector)

    rng, spec = build_run(case)
    seq = seqgen.build(spec)
    n = case["n"]
    dur = seq.get_duration(include_fall_time=case["modulation"])
    dt = case["dt"]
    times = eval_times(rng, case["eval_style"], dur, dt)
    obs = [StateResult(evaluation_times=times), Occupation(evaluation_times=times), CorrelationMatrix(evaluation_times=times),
           Energy(evaluation_times=times), EnergySecondMoment(evaluation_times=times), EnergyVariance(evaluation_times=times)]
    kw = {}
    psi0 = None
    if case["init"]:
        v = rng.normal(size=2 ** n) + 1j * rng.normal(size=2 ** n)
        v /= np.linalg.norm(v)
        psi0 = v
        kw["initial_state"] = StateVector(torch.tensor(v, dtype=torch.complex128), gpu=False)
    im = case.get("imat", "register")
    if im == "custom-sparse" and n >= 2:
        m = rng.uniform(0.2, 8.0, size=(n, n)) * (rng.random(size=(n, n)) < 0.6)
        m = np.triu(m, 1)
        kw["interaction_matrix"] = (m + m.T).tolist()
    elif im == "zero" and n >= 2:
        kw["interaction_matrix"] = np.zeros((n, n)).tolist()
    elif im == "cutoff-all":
        kw["interaction_cutoff"] = 1e9
    cfg = SVConfig(dt=dt, krylov_tolerance=case["ktol"], observables=obs, with_modulation=case["modulation"], log_level=e2e.quiet(),
                   gpu=False, **kw)
    cnt = {k: 0 for k in REQUIRED}
    cnt["rejected"] = 0
    viol = []
    worst = {}
    fp = seqgen.describe(spec) + f":dt{dt:g}:{case['eval_style']}:init{int(case['init'])}" + ("" if im == "register" else ":" + im)
    sample = {"spec": spec, "dt": dt, "krylov_tolerance": case["ktol"], "evaluation_times": times, "initial_state": case["init"]}
    try:
        with e2e.recording(SVBackend) as rec, e2e.krylov_recording() as kcalls:
            results = SVBackend(seq, config=cfg).run()
    except Exception as e:
        import traceback

        tb = traceback.extract_tb(e.__traceback__)
        where = next((f"{f.name}" for f in reversed(tb) if "/emu_" in f.filename), "?")
        cnt["runs"] += 1
        if isinstance(e, RecursionError) and "did not converge" in str(e) and n <= 10:
            # an honest refusal (C07): with max_krylov_dim = 100 the exponential of a step with |H|*dt >> 30 cannot be reached. It is a
            # documented rejection when the step really is that large (user-chosen dt above the duration, strongly interacting register)
            from emu_base.pulser_adapter import PulserData

            sd_ = next(iter(PulserData(sequence=seq, config=cfg, dt=dt).get_sequences()))
            snap_ = e2e.snapshot(sd_)
            tt_ = snap_["target_times"]
            amax = max(float(np.abs(np.linalg.eigvalsh(e2e.step_hamiltonian(snap_, k_, "start"))).max()) * (tt_[k_ + 1] - tt_[k_]) * 1e-3 for k_ in range(len(tt_) - 1))
            if amax > 30:
                cnt["rejected"] += 1
                return {"fp": fp, "nontrivial": False, "violations": viol, "counters": cnt, "max": worst, "sample": sample}
        viol.append({"key": f"C01:run-raises:{type(e).__name__}:{where}", "msg": f"{fp}: {e}"[:400]})
        return {"fp": fp, "nontrivial": False, "violations": viol, "counters": cnt, "max": worst, "sample": sample}
    cnt["runs"] += 1
    if len(rec) != 1:
        viol.append({"key": "C01:unexpected-number-of-solver-runs", "msg": f"{len(rec)} for a noiseless sequence"})
        return {"fp": fp, "nontrivial": False, "violations": viol, "counters": cnt, "max": worst, "sample": sample}
    snap, res1 = rec[0]
    cnt["sequence_data_recorded"] += 1
    if snap["omega"].shape[1] != n or snap["qubit_ids"] != tuple(a[0] for a in spec["atoms"]):
        viol.append({"key": "C01:solver-given-wrong-number-of-atoms", "msg": f"{fp}: omega has {snap['omega'].shape[1]} columns for {n} atoms"})
        return {"fp": fp, "nontrivial": False, "violations": viol, "counters": cnt, "max": worst, "sample": sample}
    nsteps = len(snap["target_times"]) - 1
    state_tol = nsteps * (10 * case["ktol"] + 2e-10) + 1e-9  # 2e-10 per step: torch.linalg.matrix_exp floor (see C07)
    straddle = e2e.straddles_slm(snap)
    modes = ["start", "mid"] if straddle else ["start"]
    best = None
    for um in modes:
        states, hams = e2e.propagate(snap, psi0, umode=um)
        alt = None
        if straddle:
            alt = [e2e.step_hamiltonian(snap, k, "mid" if um == "start" else "start") for k in range(nsteps)]
        v, w, c = e2e.compare_results(results, snap, states, hams, state_tol=state_tol, obs_tol=state_tol, alt_hams=alt)
        if best is None or len(v) < len(best[0]):
            best = (v, w, c, states, hams)
        if not v:
            break
    v, w, c, states, hams = best
    # in-situ contract on krylov_exp_impl (C07's): the true local error of every step, against the same reference Hamiltonians
    excess, known, other = e2e.krylov_step_excess(kcalls, hams, snap["target_times"])
    cnt["krylov_steps_monitored"] = len(kcalls)
    for k_, err_, tol_ in other[:2]:
        if k_ < 0:
            viol.append({"key": "C01:solver-did-not-exponentiate-once-per-step", "msg": f"{fp}: {len(kcalls)} Krylov exponentiations for {nsteps} steps"})
        else:
            viol.append({"key": "C01:in-situ-krylov-step-inaccurate", "msg": f"{fp}: step {k_} local error {err_:.3e} with tolerance {tol_:.1e}"})
    if v and known:
        # re-judge with the measured excess of the known Krylov defect added to the budget (global error <= sum of local errors)
        um = "start"
        v2, w2, c2 = e2e.compare_results(results, snap, states, hams, state_tol=state_tol + excess, obs_tol=state_tol + 2 * excess,  # |<O>_a - <O>_b| <= 2*|O|*|a-b| for unit vectors
                                         alt_hams=[e2e.step_hamiltonian(snap, k, "mid") for k in range(nsteps)] if straddle else None)
        if not v2:
            viol.append({"key": "C01:krylov-early-stop-exceeds-tolerance",
                         "msg": f"{fp} dt={dt:g} ktol={case['ktol']:.0e}: {known} step(s) stopped early (error estimate uses |A v_j|), local excess {excess:.3e}; first strict deviation: {v[0][1]}"})
            v = []
    for key, msg in v[:3]:
        viol.append({"key": "C01:" + key, "msg": f"{fp} dt={dt:g} ktol={case['ktol']:.0e} steps={nsteps}: {msg}"})
    worst.update(w)
    cnt["states_compared"] += c["states_compared"]
    cnt["values_compared"] += c["values_compared"]
    distinct_h = len({h.tobytes() for h in hams})
    nontrivial = bool(np.linalg.norm(states[-1] - states[0]) > 1e-3 and distinct_h >= 2)
    if results.atom_order != tuple(a[0] for a in spec["atoms"]):
        viol.append({"key": "C01:atom-order-differs-from-register", "msg": f"{results.atom_order}"})
    # discretisation clause: on a smooth sequence a dt=1 run must be close to a 1-ns reference built from Pulser's own samples
    if case["disc"] and not viol:
        sm = seqgen.random_spec(rng, n=min(n, 5), basis="ising", dmin=6.0, wf_kinds=["blackman", "interp"], n_pulses=int(rng.integers(1, 3)),
                                max_dur=200, min_dur=60, delays=False, dmm=case["dmm"], local=case["local"])
        for op in sm["ops"]:
            if op["op"] == "pulse":  # smooth detuning that starts and ends at 0
                d_ = seqgen.wf_duration(op["amp"])
                op["det"] = ["interp", d_, [0.0, float(rng.uniform(-15, 15)), float(rng.uniform(-15, 15)), 0.0]]
            if op["op"] == "dmm":
                op["wf"] = ["interp", seqgen.wf_duration(op["wf"]), [0.0, float(rng.uniform(-15, 0)), 0.0]]
        r = _discretisation(seqgen.build(sm), sm, None, len(sm["atoms"]))
        worst["dt1_err_vs_pulser_samples"] = r
        cnt["discretisation_checked"] = 1
        if r > 0.05:
            viol.append({"key": "C01:dt1-run-far-from-1ns-pulser-sample-reference", "msg": f"{seqgen.describe(sm)}: |dpsi|={r:.3e}", "detail": {"spec": sm}})
    return {"fp": fp, "nontrivial": nontrivial, "violations": viol, "counters": cnt, "max": worst,
            "sample": sample if case["idx"] % 16 == 0 else None}


def _discretisation(seq, spec, psi0, n):
    """|psi_emu(dt=1) - psi_ref| where psi_ref evolves Pulser's own 1-ns samples (value at t held over [t,t+1])."""
    import torch
    from pulser.sampler import sample
    from emu_sv import SVBackend, SVConfig, StateResult, StateVector

    kw = {}
    if psi0 is not None:
        kw["initial_state"] = StateVector(torch.tensor(psi0, dtype=torch.complex128), gpu=False)
    cfg = SVConfig(dt=1, krylov_tolerance=1e-10, observables=[StateResult(evaluation_times=[1.0])], log_level=e2e.quiet(), gpu=False, **kw)
    res = SVBackend(seq, config=cfg).run()
    got = e2e.state_to_dense(res.get_result("state", 1.0))
    samples = sample(seq)
    nd = samples.to_nested_dict(all_local=True)["Local"].get("ground-rydberg", {})
    ids = [a[0] for a in spec["atoms"]]
    T = samples.max_duration
    om = np.zeros((T, n))
    de = np.zeros((T, n))
    ph = np.zeros((T, n))
    for j, q in enumerate(ids):
        if q in nd:
            om[:, j] = np.asarray(nd[q]["amp"], dtype=float)[:T]
            de[:, j] = np.asarray(nd[q]["det"], dtype=float)[:T]
            ph[:, j] = np.asarray(nd[q]["phase"], dtype=float)[:T]
    pos = np.array([[a[1], a[2]] for a in spec["atoms"]])
    dist = np.linalg.norm(pos[:, None] - pos[None], axis=-1) + np.eye(n)
    U = seq.device.interaction_coeff / dist ** 6
    np.fill_diagonal(U, 0.0)
    slm = set(spec.get("slm") or [])
    Um = U.copy()
    for j, q in enumerate(ids):
        if q in slm:
            Um[j, :] = 0
            Um[:, j] = 0
    slm_end = seq._slm_mask_time[1] if len(seq._slm_mask_time) > 1 else 0
    psi = np.zeros(2 ** n, dtype=complex)
    psi[0] = 1
    if psi0 is not None:
        psi = psi0.copy()
    # trapezoid-like: use the average of samples t and t+1 (value 0 after the end) as the step value
    for t in range(T):
        o = 0.5 * (om[t] + (om[t + 1] if t + 1 < T else 0 * om[t]))
        d_ = 0.5 * (de[t] + (de[t + 1] if t + 1 < T else de[t]))
        p = ph[t]
        H = ref.dense_hamiltonian(o, d_, p, Um if t < slm_end else U)
        psi = ref.expm_herm(H, 1e-3) @ psi
    return float(np.linalg.norm(got - psi))
