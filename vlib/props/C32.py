"""C32 — qubit-order optimisation returns a valid, no-worse permutation; helpers are consistent.

Monitor: postcondition wrapper around the real `emu_mps.optimatrix.minimize_bandwidth` and the
permutation helpers, driven with generated symmetric matrices.
"""
import numpy as np

ID = "C32"
LEVEL = "exploration"
ENGINE = "unit-contracts"
TECHNIQUE = "runtime postcondition on minimize_bandwidth and permutation helpers over generated symmetric matrices"
LEVEL_TEXT = ("Exploration: postconditions (is a permutation; weighted bandwidth not larger than the input order's; "
              "inverse/permute helpers mutually consistent) evaluated on every call for generated symmetric matrices n=1..30 "
              "with random sparsity, signs, exact ties, zero rows, all-zero and disconnected graphs, 1/r^6 registers.")
LEVEL_NOTE = "Bandwidth is recomputed by the harness with numpy (max |M_ij| |i-j|), not with the repo's matrix_bandwidth."
RULE = ("symmetric matrices n in 1..30 from styles {dense random, sparse, ties, zero rows, all-zero, disconnected blocks, "
        "banded shuffled, 1/r^6 of random 2-D registers, ring}; distinct = (style,n,hash); non-trivial = matrix has a "
        "non-zero off-diagonal entry and the identity order is not already optimal-looking (bandwidth changed or perm != id)")
ASSUMPTIONS = ["torch.randperm inside the optimiser is seeded by the case seed (results are reproducible per case)"]
REQUIRED = ["minimize_bandwidth_calls", "helper_checks"]
STYLES = ["dense", "sparse", "ties", "zero-rows", "all-zero", "blocks", "banded-shuffled", "register", "ring", "signed"]


def gen_cases(tier, seed):
    rng = np.random.default_rng(seed)
    reps = 6 if tier == "quick" else 60
    cases = []
    for r in range(reps):
        for st in STYLES:
            u = rng.random()
            n = int(rng.integers(1, 4)) if u < 0.15 else int(rng.integers(4, 13)) if u < 0.7 else int(rng.integers(13, 31))
            if tier == "quick" and n > 20:
                n = int(rng.integers(13, 21))
            cases.append({"style": st, "n": n, "seed": int(rng.integers(1 << 30))})
    return cases


def _matrix(rng, style, n):
    M = np.zeros((n, n))
    iu = np.triu_indices(n, 1)
    k = len(iu[0])
    if style == "dense":
        v = rng.normal(size=k)
    elif style == "signed":
        v = rng.normal(size=k) * 10.0 ** rng.integers(-3, 4, size=k)
    elif style == "sparse":
        v = rng.normal(size=k) * (rng.random(k) < 0.25)
    elif style == "ties":
        v = rng.choice([0.0, 1.0, 1.0, -1.0, 2.0], size=k)
    elif style == "zero-rows":
        v = rng.normal(size=k)
        M[iu] = v
        M = M + M.T
        dead = rng.random(n) < 0.4
        M[dead, :] = 0
        M[:, dead] = 0
        return M
    elif style == "all-zero":
        return M
    elif style == "blocks":
        lab = rng.integers(0, 3, size=n)
        v = rng.uniform(0.1, 2, size=k) * (lab[iu[0]] == lab[iu[1]])
    elif style == "banded-shuffled":
        B = np.zeros((n, n))
        for i in range(n - 1):
            B[i, i + 1] = B[i + 1, i] = rng.uniform(0.5, 2)
            if i + 2 < n and rng.random() < 0.5:
                B[i, i + 2] = B[i + 2, i] = rng.uniform(0.01, 0.1)
        p = rng.permutation(n)
        return B[np.ix_(p, p)]
    elif style == "register":
        pos = rng.uniform(0, 6 * np.sqrt(n) + 1, size=(n, 2))
        d = np.linalg.norm(pos[:, None] - pos[None], axis=-1) + np.eye(n)
        M = 5420158.53 / np.maximum(d, 1.0) ** 6
        np.fill_diagonal(M, 0)
        return M
    elif style == "ring":
        p = rng.permutation(n)
        for a in range(n):
            i, j = p[a], p[(a + 1) % n]
            if i != j:
                M[i, j] = M[j, i] = 1.0
        return M
    M[iu] = v
    return M + M.T


def _bw(A):
    n = A.shape[0]
    i, j = np.indices((n, n))
    return float(np.max(np.abs(A) * np.abs(i - j))) if n else 0.0


def run_case(case):
    import torch
    import emu_mps.optimatrix as om
    from emu_mps.optimatrix import optimiser

    rng = np.random.default_rng(case["seed"])
    n = case["n"]
    M = _matrix(rng, case["style"], n)
    viol = []
    cnt = {"minimize_bandwidth_calls": 0, "helper_checks": 0, "rejected": 0}
    worst = {}
    t = torch.tensor(M, dtype=torch.float64)
    perm = None
    try:
        perm = om.minimize_bandwidth(t)
        cnt["minimize_bandwidth_calls"] += 1
    except Exception as e:  # the property promises a permutation for any symmetric matrix
        cnt["minimize_bandwidth_calls"] += 1
        viol.append({"key": f"C32:optimiser-raises:{type(e).__name__}", "msg": f"style={case['style']} n={n}: {e}"[:300],
                     "detail": {"M": M.tolist()}})
    nontrivial = False
    if perm is not None:
        pl = [int(x) for x in perm.tolist()]
        if sorted(pl) != list(range(n)) or perm.dtype not in (torch.int64, torch.int32):
            viol.append({"key": "C32:not-a-permutation", "msg": f"{pl}", "detail": {"M": M.tolist()}})
        else:
            before = _bw(M)
            after = _bw(M[np.ix_(pl, pl)])
            worst["bandwidth_ratio_after_over_before"] = after / before if before > 0 else 0.0
            if after > before * (1 + 1e-12):
                viol.append({"key": "C32:bandwidth-got-worse", "msg": f"before {before!r} after {after!r} perm {pl}", "detail": {"M": M.tolist()}})
            nontrivial = bool(np.abs(M).sum() > 0 and (pl != list(range(n)) or after < before))
            # the repo's own bandwidth must agree with the harness' on both matrices
            b_repo = optimiser.matrix_bandwidth(om.permute_tensor(torch.abs(t), perm))
            if abs(b_repo - after) > 1e-9 * (1 + abs(after)):
                viol.append({"key": "C32:matrix-bandwidth-or-2d-permute-inconsistent", "msg": f"repo {b_repo!r} harness {after!r}"})
    # helpers, on a fresh random permutation (independent of the optimiser)
    p = torch.tensor(rng.permutation(n), dtype=torch.int64)
    pl = p.tolist()
    inv = om.inv_permutation(p)
    ident = list(range(n))
    ok = inv[p].tolist() == ident and p[inv].tolist() == ident
    cnt["helper_checks"] += 1
    if not ok:
        viol.append({"key": "C32:inverse-does-not-undo-permutation", "msg": f"perm {pl} inv {inv.tolist()}"})
    items = [f"q{k}" for k in range(n)]
    chars = "".join(chr(ord("a") + k) for k in range(n))
    want = [items[i] for i in pl]
    L = om.permute_list(items, p)
    T = om.permute_tuple(tuple(items), p)
    S = om.permute_string(chars, p)
    V = om.permute_tensor(torch.arange(n, dtype=torch.float64) * 1.5, p)
    A = torch.tensor(rng.normal(size=(n, n)))
    A2 = om.permute_tensor(A, p)
    cnt["helper_checks"] += 5
    if L != want or list(T) != want or not isinstance(T, tuple):
        viol.append({"key": "C32:permute-list-or-tuple-wrong", "msg": f"{L} {T} vs {want}"})
    if S != "".join(chars[i] for i in pl):
        viol.append({"key": "C32:permute-string-wrong", "msg": f"{S}"})
    if V.tolist() != [1.5 * i for i in pl]:
        viol.append({"key": "C32:permute-vector-wrong", "msg": f"{V.tolist()}"})
    if not np.array_equal(A2.numpy(), A.numpy()[np.ix_(pl, pl)]):
        viol.append({"key": "C32:permute-matrix-not-rows-and-columns", "msg": "2-D permute differs from M[perm][:,perm]"})
    # undoing: permuting by perm then by inv restores
    back = om.permute_list(L, inv)
    if back != items or om.permute_string(S, inv) != chars:
        viol.append({"key": "C32:inverse-does-not-undo-permutation", "msg": "list/string round trip"})
    return {"fp": f"{case['style']}:{n}:{hash(M.tobytes()) & 0xffffff:x}", "nontrivial": nontrivial, "violations": viol,
            "counters": cnt, "max": worst,
            "sample": {"style": case["style"], "n": n, "M": np.round(M, 4).tolist(), "perm": None if perm is None else perm.tolist()} if n <= 5 and case["idx"] % 7 == 0 else None}
