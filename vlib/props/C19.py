"""C19 — Brent root finding terminates inside the bracket at a sign change.

Monitor: a recording driver around the real `BrentsRootFinder` (one-at-a-time protocol, as the noisy solver
uses it) and `find_root_brents`.  The function is an *adversary*: at each queried abscissa it may return any
non-zero value, so the checks rely only on the recorded history (abscissae, ordinates) and on the finder's
public fields after each call.
"""
import math

import numpy as np

ID = "C19"
LEVEL = "exploration"
ENGINE = "unit-contracts"
TECHNIQUE = "runtime invariant/postcondition monitor on BrentsRootFinder driven by adversarial ordinate sequences; bounded-progress counter"
LEVEL_TEXT = ("Exploration: for every generated bracket and adversary the monitor checks after each step that the queried abscissa "
              "lies inside the current bracket, that the bracket keeps a recorded sign change, and on termination that |b-a| < tol, "
              "both ends are recorded evaluations of opposite sign and the returned guess is the end with the smaller |f|; "
              "termination is decided as bounded progress (<= 4*(log2((b-a)/tol)+2)^2 evaluations). find_root_brents and the "
              "one-at-a-time protocol must produce the same abscissa sequence.")
LEVEL_NOTE = "Domain: finite inputs, tol >= 8 ulp of max(|a|,|b|), ordinates non-zero (exact zeros are a separate stratum). Bound is Brent's with slack 4x."
RULE = ("brackets [a,b] with widths 1e-6..1e6 at offsets 0..1e6 (both signs), tol from 8 ulp to width/2, epsilon in {1e-12..1, the "
        "solver's 1}; adversaries {smooth monotone, polynomial multi-root, steep tanh, step, keep-longer-half, magnitude games, "
        "near-threshold, random sign}; distinct = (adversary, eps exponent, log2(width/tol) bucket, hash); non-trivial = "
        "at least 2 evaluations were needed")
ASSUMPTIONS = ["tolerance >= 8 ulp of the larger bracket end (below that no float64 bracket can shrink further)",
               "an adversary never returns exactly 0 except in the 'zero' stratum, where only termination and in-bracket queries are judged"]
REQUIRED = ["finder_runs", "abscissa_checks", "sign_change_checks", "protocol_equivalence_checks", "converged_checked"]
BATCH = 60
ADV = ["smooth", "poly", "tanh", "step", "longer-half", "magnitude", "threshold", "random-sign", "zero", "solver"]


def gen_cases(tier, seed):
    rng = np.random.default_rng(seed)
    reps = 4 if tier == "quick" else 60
    return [{"adv": a, "seed": int(rng.integers(1 << 30)), "count": BATCH} for _ in range(reps) for a in ADV]


class Adversary:
    """Ordinate oracle. Tracks its own bracket (lo, hi, sign at lo) from the history it produced."""

    def __init__(self, kind, rng, a, b, fa, fb, eps):
        self.kind, self.rng = kind, rng
        self.lo, self.hi = a, b
        self.slo = 1.0 if fa > 0 else -1.0
        self.eps = eps
        self.last = fb
        self.root = a + (b - a) * rng.uniform(0.001, 0.999)
        self.k = int(rng.integers(1, 4)) * 2 - 1
        self.scale = 10 ** rng.uniform(-6, 6)
        self.calls = 0
        self.memo = {a: fa, b: fb}

    def func(self, x):
        """deterministic function of x only (used for the find_root_brents equivalence)"""
        s = -self.slo  # sign right of the root
        k = self.kind
        w = self.hi0 - self.lo0 if hasattr(self, "hi0") else 1.0
        t = (x - self.root) / w
        if k in ("smooth", "solver"):
            return s * self.scale * (t + 0.3 * t * t)
        if k == "poly":
            return s * self.scale * t ** self.k * (1 + 50 * t * t)
        if k == "tanh":
            return s * self.scale * (math.tanh(t * 1e4) or 1e-12)
        if k == "step":
            return s * self.scale * (1.0 if t >= 0 else -1.0) * (1 + abs(t))
        return None

    def __call__(self, x):
        self.calls += 1
        if x in self.memo:  # an adversary is still a function: the same abscissa gets the same ordinate
            return self.memo[x]
        f = self._value(x)
        self.memo[x] = f
        return f

    def _value(self, x):
        f = self.func(x)
        if f is None:
            k, rng = self.kind, self.rng
            if k in ("longer-half", "magnitude", "threshold", "zero"):
                sign = self.slo if (x - self.lo) < (self.hi - x) else -self.slo
            else:
                sign = self.slo if rng.random() < 0.5 else -self.slo
            if k == "magnitude":
                mag = 10 ** rng.choice([-12.0, -6.0, 0.0, 6.0, 12.0])
            elif k == "threshold":
                mag = abs(self.last) + rng.choice([0.5, 0.999, 1.001, 2.0]) * self.eps * rng.choice([-1, 1])
                mag = abs(mag) or 1.0
            else:
                mag = 10 ** rng.uniform(-8, 8)
            f = sign * mag
            if k == "zero" and rng.random() < 0.25:
                f = 0.0
        if f == 0.0 and self.kind != "zero":
            f = (-self.slo if x >= self.root else self.slo) * 1e-12 * self.scale
        # update own bracket
        if f != 0.0 and self.lo <= x <= self.hi:
            if (f > 0) == (self.slo > 0):
                self.lo = x
            else:
                self.hi = x
        self.last = f
        return f


def _bracket(rng, kind):
    if kind == "solver":  # times in ns as in NoisyMPSBackendImpl.sweep_complete
        a = float(rng.uniform(0, 5000))
        w = float(rng.choice([0.3, 1.0, 2.5, 10.0, 33.0, 200.0]) * rng.uniform(0.5, 1.0))
        return a, a + w, 1.0, 1.0
    w = float(10 ** rng.uniform(-6, 6))
    off = float(rng.choice([0.0, 1.0, -1.0]) * 10 ** rng.uniform(-3, 6)) if rng.random() < 0.8 else 0.0
    a = off - (w * rng.random() if rng.random() < 0.3 else 0.0)
    b = a + w
    ulp = math.ulp(max(abs(a), abs(b)))
    tol = float(max(8 * ulp, w * 10 ** rng.uniform(-14, -0.3)))
    eps = float(rng.choice([1e-12, 1e-9, 1e-6, 1e-3, 1.0]))
    return a, b, tol, eps


def _drive(bf_mod, adv, a, b, fa, fb, tol, eps, cap):
    """one-at-a-time protocol with monitoring; returns (history, violations list of (key,msg), finder)"""
    v = []
    rf = bf_mod.BrentsRootFinder(start=a, end=b, f_start=fa, f_end=fb, epsilon=eps)
    hist = {a: fa, b: fb}
    xs = []
    n_abs = n_sign = 0
    while not rf.is_converged(tol):
        if len(xs) >= cap:
            v.append(("C19:no-termination-within-progress-bound", f"{len(xs)} evaluations, bracket still {abs(rf.b - rf.a):.3e} >= tol {tol:.3e}"))
            break
        lo, hi = min(rf.a, rf.b), max(rf.a, rf.b)
        x = rf.get_next_abscissa()
        n_abs += 1
        if not (lo <= x <= hi) or not math.isfinite(x):
            v.append(("C19:abscissa-outside-current-bracket", f"x={x!r} bracket=[{lo!r},{hi!r}] after {len(xs)} evals"))
            if not (min(a, b) <= x <= max(a, b)):
                v.append(("C19:abscissa-outside-initial-interval", f"x={x!r} interval=[{a!r},{b!r}]"))
            break
        y = adv(x)
        xs.append(x)
        hist[x] = y
        rf.provide_ordinate(x, y)
        if y != 0.0:
            n_sign += 1
            if not ((rf.fa < 0) != (rf.fb < 0) and rf.fa != 0 and rf.fb != 0):
                v.append(("C19:sign-change-lost", f"fa={rf.fa!r} fb={rf.fb!r} after x={x!r} y={y!r}"))
                break
            if hist.get(rf.a) != rf.fa or hist.get(rf.b) != rf.fb:
                v.append(("C19:bracket-end-is-not-a-recorded-evaluation", f"a={rf.a!r} fa={rf.fa!r} b={rf.b!r} fb={rf.fb!r}"))
                break
            if abs(rf.fb) > abs(rf.fa) or rf.current_guess != rf.b:
                v.append(("C19:guess-is-not-the-better-bracket-end", f"fa={rf.fa!r} fb={rf.fb!r} guess={rf.current_guess!r}"))
                break
    return xs, hist, v, rf, n_abs, n_sign


def run_case(case):
    import importlib

    bf = importlib.import_module("emu_base.math.brents_root_finding")
    rng = np.random.default_rng(case["seed"])
    cnt = {k: 0 for k in REQUIRED}
    cnt["rejected"] = 0
    viol, fps = [], []
    worst = {"evals_over_bound": 0.0}
    sample = None
    kind = case["adv"]
    for i in range(case["count"]):
        a, b, tol, eps = _bracket(rng, kind)
        s = 1.0 if rng.random() < 0.5 else -1.0
        fa = s * 10 ** rng.uniform(-6, 6)
        fb = -s * 10 ** rng.uniform(-6, 6)
        sub = np.random.default_rng(int(rng.integers(1 << 30)))
        adv = Adversary(kind, sub, a, b, fa, fb, eps)
        adv.lo0, adv.hi0 = a, b
        if adv.func(a) is not None:  # function families define the end values themselves
            fa, fb = adv.func(a), adv.func(b)
            if not fa * fb < 0:
                cnt["rejected"] += 1
                continue
            adv.slo = 1.0 if fa > 0 else -1.0
            adv.memo = {a: fa, b: fb}
        ratio = max(2.0, (b - a) / tol)
        bound = 4 * (math.log2(ratio) + 2) ** 2
        cap = int(bound) + 5
        desc = f"adv={kind} a={a!r} b={b!r} tol={tol:.3e} eps={eps:g}"
        try:
            xs, hist, v, rf, n_abs, n_sign = _drive(bf, adv, a, b, fa, fb, tol, eps, cap)
        except (AssertionError, ZeroDivisionError, OverflowError, ValueError) as e:
            cnt["finder_runs"] += 1
            nzero = sum(1 for x_, y_ in adv.memo.items() if y_ == 0.0)
            key = f"C19:finder-raises:{type(e).__name__}"
            if isinstance(e, ZeroDivisionError) and nzero >= 2:
                key = "C19:zero-division-after-two-exact-zero-ordinates"
            viol.append({"key": key, "msg": f"{desc}: {e}; exact-zero ordinates returned so far: {nzero}"[:300],
                         "detail": {"history": [[x_, y_] for x_, y_ in list(adv.memo.items())[:40]]}})
            continue
        cnt["finder_runs"] += 1
        cnt["abscissa_checks"] += n_abs
        cnt["sign_change_checks"] += n_sign
        worst["evals_over_bound"] = max(worst["evals_over_bound"], len(xs) / bound)
        for key, msg in v:
            if kind == "zero" and key not in ("C19:no-termination-within-progress-bound", "C19:abscissa-outside-current-bracket", "C19:abscissa-outside-initial-interval"):
                continue
            viol.append({"key": key + (":zero-ordinate" if kind == "zero" else ""), "msg": f"{desc}: {msg}", "detail": {"xs": xs[:40]}})
        if not v and kind != "zero":
            cnt["converged_checked"] += 1
            if not abs(rf.b - rf.a) < tol:
                viol.append({"key": "C19:reported-converged-but-bracket-wider-than-tolerance", "msg": desc})
            if not ((hist[rf.a] < 0) != (hist[rf.b] < 0)):
                viol.append({"key": "C19:final-bracket-has-no-sign-change", "msg": desc})
        # equivalence of the two entry points on function families (deterministic f)
        if adv.func(a) is not None and not v:
            calls = []

            def f(x, adv=adv, calls=calls):
                calls.append(x)
                return adv(x)

            try:
                r = bf.find_root_brents(f, start=a, end=b, f_start=fa, f_end=fb, tolerance=tol, epsilon=eps)
                cnt["protocol_equivalence_checks"] += 1
                if calls != xs or r != rf.current_guess:
                    viol.append({"key": "C19:find_root_brents-differs-from-one-at-a-time-protocol",
                                 "msg": f"{desc}: {len(calls)} vs {len(xs)} evaluations, result {r!r} vs {rf.current_guess!r}"})
                if not (min(a, b) <= r <= max(a, b)):
                    viol.append({"key": "C19:root-outside-interval", "msg": f"{desc}: {r!r}"})
                # with f_start/f_end omitted the function is evaluated at the ends: same result
                r2 = bf.find_root_brents(lambda x: f(x), start=a, end=b, tolerance=tol, epsilon=eps)
                if r2 != r:
                    viol.append({"key": "C19:find_root_brents-depends-on-precomputed-ends", "msg": f"{desc}: {r2!r} vs {r!r}"})
            except Exception as e:
                viol.append({"key": f"C19:find_root_brents-raises:{type(e).__name__}", "msg": f"{desc}: {e}"[:300]})
        if len(xs) >= 2:
            fps.append(f"{kind}:{eps:g}:{int(math.log2(ratio)) // 4}:{hash(tuple(xs[:6])) & 0xfffff:x}")
        if sample is None and 2 <= len(xs) <= 12:
            sample = {"adversary": kind, "a": a, "b": b, "tol": tol, "epsilon": eps, "abscissae": xs, "ordinates": [hist[x] for x in xs],
                      "result": rf.current_guess}
    return {"fp": None, "nontrivial": False, "fps": fps, "n_eval": case["count"], "violations": viol[:6], "counters": cnt,
            "max": worst, "sample": sample if case["idx"] % 7 == 0 else None}
