"""C15 — sampled bitstrings follow the state's measurement distribution.

Monitor: wrapper-level checks on every `State.sample` call of the workload (MPS qubits/qutrits with the centre
anywhere, StateVector, DensityMatrix) and on `apply_measurement_errors`: deterministic invariants (total count,
length, alphabet, no outcome of Born probability 0) and a two-stage chi-square test of the counts against the
Born distribution computed by dense contraction (readout errors: against the analytically transformed one).
"""
import numpy as np

from vlib import e2e, ref, tn

ID = "C15"
LEVEL = "exploration"
ENGINE = "unit-contracts"
TECHNIQUE = "runtime checks on State.sample / apply_measurement_errors outputs: deterministic invariants + two-stage chi-square against dense Born probabilities"
LEVEL_TEXT = ("Exploration: random and structured (product, GHZ, W, domain-wall) states of 2-8 atoms as MPS (qubits and qutrits, centre at any "
              "site / undeclared, after correlation-matrix and apply histories), state vectors and density matrices; shot counts 1..20000 incl. "
              "non-multiples of the batch size; readout errors with fp != fn incl. 0 and 1; counts tested against exact probabilities "
              "(p<1e-4 => re-run with 4x shots and a fresh seed; a violation needs both).")
LEVEL_NOTE = "Per-case false-alarm probability ~1e-8 (two independent stages at 1e-4); a few hundred statistical cases per run."
RULE = "(representation, N, dim, state style, centre, shots class, error rates); distinct = that tuple; non-trivial = entangled state (bond dim>1) or readout error present"
ASSUMPTIONS = ["leakage level x is read as '0' (the documented behaviour)", "chi-square with cells of expected count < 5 merged; scipy.stats.chi2"]
REQUIRED = ["sample_calls", "statistical_tests", "readout_error_tests", "total_count_checks", "zero_probability_checks", "nonzero_centre_cases"]
SHARD_TIMEOUT = {"quick": 1700, "thorough": 5 * 3600}


def gen_cases(tier, seed):
    rng = np.random.default_rng(seed)
    reps = 16 if tier == "quick" else 250
    out = []
    for i in range(reps):
        for rep in ("mps", "mps3", "sv", "dm", "errors", "counts"):
            out.append({"rep": rep, "seed": int(rng.integers(1 << 30))})
    return out


def _pval(counter, probs, n):
    from scipy.stats import chi2 as chi2d

    stat, dof, impossible = e2e.bitstring_chi2(counter, probs)
    return float(chi2d.sf(stat, dof)), impossible


def _two_stage(sampler, probs, n, shots, rng_seed):
    """sampler(shots, seed) -> Counter. Returns (ok, info)"""
    c1 = sampler(shots, rng_seed)
    p1, imp1 = _pval(c1, probs, n)
    if imp1:
        return False, f"outcome(s) of probability 0 sampled: {imp1[:3]}", c1
    if p1 >= 1e-4:
        return True, f"p={p1:.3g}", c1
    c2 = sampler(4 * shots, rng_seed + 7919)
    p2, imp2 = _pval(c2, probs, n)
    if imp2 or p2 < 1e-4:
        return False, f"chi-square p={p1:.2e} with {shots} shots and p={p2:.2e} with {4*shots} shots (fresh seed)", c2
    return True, f"p1={p1:.2e} (suspicious) p2={p2:.3g}", c2


def _structured(rng, n, d, style):
    """dense vector in emulator order"""
    D = d ** n
    v = np.zeros(D, dtype=complex)
    if style == "ghz":
        v[0] = 1
        v[sum(1 * d ** k for k in range(n))] = np.exp(1j * rng.uniform(0, 6.28))
    elif style == "w":
        for k in range(n):
            v[d ** k] = np.exp(1j * rng.uniform(0, 6.28))
    elif style == "wall":
        idx = 0
        for k in range(n):
            idx = idx * d + (1 if k < n // 2 else 0)
        v[idx] = 1
    elif style == "product":
        v = np.ones(1, dtype=complex)
        for k in range(n):
            a = rng.normal(size=d) + 1j * rng.normal(size=d)
            if rng.random() < 0.4:
                a[int(rng.integers(d))] = 0
            v = np.kron(v, a)
    else:
        v = rng.normal(size=D) + 1j * rng.normal(size=D)
        v *= (rng.random(D) < 0.6)
        if not np.any(v):
            v[0] = 1
    return v / np.linalg.norm(v)


def _mps_from_dense(v, n, d, eig):
    """exact MPS of a dense vector by successive SVDs"""
    import torch
    from emu_mps import MPS

    fs = []
    m = v.reshape(1, -1)
    left = 1
    for k in range(n - 1):
        m = m.reshape(left * d, -1)
        u, s, vh = np.linalg.svd(m, full_matrices=False)
        keep = max(1, int(np.sum(s > 1e-14)))
        fs.append(torch.tensor(u[:, :keep].reshape(left, d, keep), dtype=torch.complex128))
        m = (s[:keep, None] * vh[:keep])
        left = keep
    fs.append(torch.tensor(m.reshape(left, d, 1), dtype=torch.complex128))
    return MPS(fs, eigenstates=eig, num_gpus_to_use=0)


def run_case(case):
    import random
    from collections import Counter

    import torch
    from emu_base.utils import apply_measurement_errors
    from emu_sv import StateVector, DensityMatrix

    rng = np.random.default_rng(case["seed"])
    cnt = {k: 0 for k in REQUIRED}
    viol = []
    rep = case["rep"]
    fp = None
    sample = None

    def seed_all(s):
        random.seed(s)
        torch.manual_seed(s)
        np.random.seed(s % (2 ** 32))

    def wellformed(counter, n, shots, desc):
        cnt["total_count_checks"] += 1
        if sum(counter.values()) != shots:
            viol.append({"key": "C15:total-count-differs-from-num_shots", "msg": f"{desc}: {sum(counter.values())} for {shots} shots"})
        if any(len(s) != n or set(s) - {"0", "1"} for s in counter):
            viol.append({"key": "C15:malformed-bitstring", "msg": f"{desc}: {list(counter)[:3]}"})

    if rep in ("mps", "mps3"):
        d = 2 if rep == "mps" else 3
        eig = ("r", "g") if d == 2 else ("g", "r", "x")
        n = int(rng.integers(2, 9 if d == 2 else 6))
        style = str(rng.choice(["random", "ghz", "w", "wall", "product", "sparse"]))
        if style == "random":
            psi = tn.rand_mps(rng, n, d, int(rng.choice([2, 4, 8])), basis=eig)
            psi.orthogonalize(0)
            psi = (1 / psi.norm()) * psi
        else:
            psi = _mps_from_dense(_structured(rng, n, d, style), n, d, eig)
        history = str(rng.choice(["fresh", "orthogonalize", "correlation", "apply", "expect_batch", "entropy"]))
        if history == "orthogonalize":
            psi.orthogonalize(int(rng.integers(n)))
        elif history == "correlation":
            psi.get_correlation_matrix()
        elif history == "apply":
            u, _ = np.linalg.qr(rng.normal(size=(d, d)) + 1j * rng.normal(size=(d, d)))
            psi.apply(int(rng.integers(n)), torch.tensor(u, dtype=torch.complex128))
        elif history == "expect_batch":
            psi.orthogonalize(int(rng.integers(n)))
            psi.expect_batch(torch.tensor(rng.normal(size=(1, d, d)), dtype=torch.complex128))
        elif history == "entropy":
            psi.entanglement_entropy(int(rng.integers(n - 1)))
        if psi.orthogonality_center not in (None, 0):
            cnt["nonzero_centre_cases"] += 1
        v = tn.dense(psi)
        p = np.abs(v) ** 2
        p /= p.sum()
        probs = ref.bit_probs(p, n, d)
        shots = int(rng.choice([500, 2000, 5000]))
        desc = f"mps d={d} n={n} style={style} history={history} centre={psi.orthogonality_center} shots={shots}"
        fp = f"{rep}:{n}:{style}:{history}:{psi.orthogonality_center}"

        def sampler(k, s):
            seed_all(s)
            c = psi.sample(num_shots=k)
            cnt["sample_calls"] += 1
            wellformed(c, n, k, desc)
            return c

        try:
            ok, info, c = _two_stage(sampler, probs, n, shots, int(rng.integers(1 << 30)))
            cnt["statistical_tests"] += 1
            cnt["zero_probability_checks"] += 1
            if not ok:
                viol.append({"key": f"C15:mps-sample-distribution-differs-from-born:{'centre-not-0' if psi.orthogonality_center not in (None, 0) else 'centre-0'}" if "probability 0" not in info
                             else "C15:mps-sampled-outcome-of-probability-zero", "msg": f"{desc}: {info}"})
            if np.abs(tn.dense(psi) - v).max() > 1e-9:
                viol.append({"key": "C15:sample-changed-the-state", "msg": desc})
        except Exception as e:
            viol.append({"key": f"C15:mps-sample-raises:{type(e).__name__}", "msg": f"{desc}: {e}"[:300]})
        sample = {"rep": rep, "n": n, "style": style, "history": history, "shots": shots, "top_counts": dict(Counter(c).most_common(4)) if 'c' in dir() else None}
    elif rep in ("sv", "dm"):
        n = int(rng.integers(1, 9 if rep == "sv" else 6))
        style = str(rng.choice(["random", "ghz", "w", "wall", "product", "sparse"]))
        v = _structured(rng, n, 2, style)
        if rep == "sv":
            st = StateVector(torch.tensor(v), gpu=False)
            p = np.abs(v) ** 2
        else:
            if rng.random() < 0.5:
                w = _structured(rng, n, 2, "random")
                a = rng.uniform(0.2, 0.8)
                rho = a * np.outer(v, v.conj()) + (1 - a) * np.outer(w, w.conj())
            else:
                rho = np.outer(v, v.conj())
            st = DensityMatrix(torch.tensor(rho), gpu=False)
            p = np.real(np.diag(rho))
        p = p / p.sum()
        probs = ref.bit_probs(p, n, 2)
        shots = int(rng.choice([500, 2000, 5000]))
        desc = f"{rep} n={n} style={style} shots={shots}"
        fp = f"{rep}:{n}:{style}"

        def sampler(k, s):
            seed_all(s)
            c = st.sample(num_shots=k)
            cnt["sample_calls"] += 1
            wellformed(c, n, k, desc)
            return c

        try:
            ok, info, c = _two_stage(sampler, probs, n, shots, int(rng.integers(1 << 30)))
            cnt["statistical_tests"] += 1
            cnt["zero_probability_checks"] += 1
            if not ok:
                viol.append({"key": f"C15:{rep}-sample-distribution-differs-from-born" if "probability 0" not in info else f"C15:{rep}-sampled-outcome-of-probability-zero",
                             "msg": f"{desc}: {info}"})
        except Exception as e:
            viol.append({"key": f"C15:{rep}-sample-raises:{type(e).__name__}", "msg": f"{desc}: {e}"[:300]})
        sample = {"rep": rep, "n": n, "style": style, "shots": shots}
    elif rep == "errors":
        n = int(rng.integers(2, 7))
        pfp = float(rng.choice([0.0, 0.05, 0.3, 1.0, float(rng.uniform(0, 1))]))
        pfn = float(rng.choice([0.0, 0.1, 0.4, 1.0, float(rng.uniform(0, 1))]))
        if pfp == 0 and pfn == 0:
            pfp = 0.2
        style = str(rng.choice(["zeros", "ones", "random", "ghz"]))
        if style == "zeros":
            p = np.zeros(2 ** n)
            p[0] = 1
        elif style == "ones":
            p = np.zeros(2 ** n)
            p[-1] = 1
        else:
            p = np.abs(_structured(rng, n, 2, style if style == "ghz" else "random")) ** 2
        M = np.array([[1 - pfp, pfn], [pfp, 1 - pfn]])
        T = np.ones((1, 1))
        for _ in range(n):
            T = np.kron(T, M)
        q = T @ p
        probs = ref.bit_probs(q, n, 2)
        shots = int(rng.choice([2000, 5000]))
        which = str(rng.choice(["function", "statevector", "mps"]))
        desc = f"readout errors via {which}: n={n} style={style} p_false_pos={pfp:.3f} p_false_neg={pfn:.3f} shots={shots}"
        fp = f"err:{n}:{style}:{pfp:.2f}:{pfn:.2f}:{which}"
        vec = np.sqrt(p).astype(complex)
        sv = StateVector(torch.tensor(vec), gpu=False)
        mps = _mps_from_dense(vec / np.linalg.norm(vec), n, 2, ("r", "g"))

        def sampler(k, s):
            seed_all(s)
            if which == "function":
                idx = np.random.default_rng(s).choice(2 ** n, size=k, p=p / p.sum())
                base = Counter(format(int(i), f"0{n}b") for i in idx)
                c = apply_measurement_errors(base, p_false_pos=pfp, p_false_neg=pfn)
            elif which == "statevector":
                c = sv.sample(num_shots=k, p_false_pos=pfp, p_false_neg=pfn)
            else:
                c = mps.sample(num_shots=k, p_false_pos=pfp, p_false_neg=pfn)
            cnt["sample_calls"] += 1
            wellformed(c, n, k, desc)
            return c

        try:
            ok, info, c = _two_stage(sampler, probs, n, shots, int(rng.integers(1 << 30)))
            cnt["readout_error_tests"] += 1
            if not ok:
                # direction: compare marginal flip frequencies with the two rates
                viol.append({"key": f"C15:readout-error-distribution-wrong:{which}", "msg": f"{desc}: {info}"})
        except Exception as e:
            viol.append({"key": f"C15:readout-error-raises:{type(e).__name__}", "msg": f"{desc}: {e}"[:300]})
        sample = {"rep": rep, "n": n, "style": style, "p_false_pos": pfp, "p_false_neg": pfn, "via": which}
    else:  # exact totals for awkward shot counts
        n = int(rng.integers(2, 6))
        psi = tn.rand_mps(rng, n, 2, 2, basis=("r", "g"))
        sv = StateVector(torch.tensor(tn.dense(psi) / np.linalg.norm(tn.dense(psi))), gpu=False)
        for shots in [1, 2, 31, 32, 33, 63, 64, 65, 100, 1000, int(rng.integers(1, 20001))]:
            for obj, nm in ((psi, "mps"), (sv, "sv")):
                seed_all(int(rng.integers(1 << 30)))
                try:
                    c = obj.sample(num_shots=shots, p_false_pos=0.1 if shots % 2 else 0.0, p_false_neg=0.05 if shots % 3 == 0 else 0.0)
                    cnt["sample_calls"] += 1
                    wellformed(c, n, shots, f"{nm} n={n} shots={shots}")
                except Exception as e:
                    viol.append({"key": f"C15:sample-raises:{type(e).__name__}", "msg": f"{nm} shots={shots}: {e}"[:200]})
        fp = f"counts:{n}"
        sample = {"rep": "counts", "n": n}
    nontrivial = rep in ("errors",) or (fp is not None and not fp.endswith("product"))
    return {"fp": fp, "nontrivial": nontrivial, "violations": viol[:5], "counters": cnt, "max": {}, "sample": sample if case["idx"] % 12 == 0 else None}
