"""C04 — backends reject what they cannot emulate instead of returning wrong results.

Monitor: outcome recorder around `run()` over the finite grid backend x sequence kind x noise model x solver.
A table states which cells a backend does not implement: a `run()` that *returns* there is a violation.
Cells a backend implements must return, and (noiseless, 2 atoms) their occupations are spot-checked against
exact evolution of the Hamiltonian Pulser defines for them.
"""
import itertools

import numpy as np

from vlib import e2e, ref

ID = "C04"
LEVEL = "fault_enumeration"
ENGINE = "e2e-reference"
TECHNIQUE = "outcome recorder (Results or exception) over an exhaustive grid of backend x channel bases x noise model x solver, with a support table as oracle and a dense reference spot check on supported cells"
LEVEL_TEXT = ("Exhaustive over the grid {emu-sv, emu-mps TDVP, emu-mps DMRG} x {ground-rydberg global, ground-rydberg local, XY, XY with SLM, digital only, "
              "ground-rydberg + digital (amplitude>0), ground-rydberg + digital (amplitude 0, detuning only), ground-rydberg + idle digital channel} x "
              "{no noise, dephasing, relaxation, depolarizing, 2x2 effective, leakage with 3x3 effective, hyperfine dephasing, SPAM, amplitude} on "
              "2-3 atom registers: unsupported cells must raise before returning; supported ones that return are spot-checked against exact evolution when noiseless.")
LEVEL_NOTE = "The support table is the documented feature set (emu-sv: two-level ground-rydberg only; DMRG: no noise of any type; nobody: digital or multi-basis, hyperfine dephasing)."
RULE = "one case per grid cell; distinct = cell; non-trivial = every cell (each is a different configuration)"
ASSUMPTIONS = ["a declared but never-used digital channel does not make a sequence multi-basis (Pulser's used_bases ignores it)",
               "spot-check tolerance 1e-3 on occupations (2 atoms: both backends are essentially exact)"]
REQUIRED = ["cells_run", "unsupported_cells_checked", "supported_cells_checked", "reference_spot_checks"]
EXHAUSTIVE = {"quick": True, "thorough": True}
BACKENDS = ["sv", "mps-tdvp", "mps-dmrg"]
SEQS = ["ryd-global", "ryd-local", "xy", "xy-slm", "digital-only", "ryd+digital-driven", "ryd+digital-detuning-only", "ryd+idle-digital-channel"]
NOISES = ["none", "dephasing", "relaxation", "depolarizing", "eff2", "leakage3", "hyperfine", "spam", "amplitude"]


def gen_cases(tier, seed):
    cells = list(itertools.product(BACKENDS, SEQS, NOISES))
    reps = 1 if tier == "quick" else 3
    return [{"backend": b, "seq": s, "noise": nz, "rep": r, "seed": seed * 1000 + i * 7 + r} for r in range(reps) for i, (b, s, nz) in enumerate(cells)]


def supported(backend, seqk, noise):
    """None = Pulser itself may refuse (not judged); True/False = the backend must return / must raise"""
    multi = seqk in ("digital-only", "ryd+digital-driven", "ryd+digital-detuning-only")
    if multi:
        return False
    if noise == "hyperfine":
        return False
    xy = seqk.startswith("xy")
    if xy and noise in ("relaxation", "amplitude"):
        return None  # pulser-core refuses these noise types in XY mode
    if backend == "sv":
        if xy or noise == "leakage3":
            return False
        return True
    if backend == "mps-dmrg":
        if noise != "none":
            return False
        return True
    return True


def build(seqk, rng):
    from pulser import Pulse, Register, Sequence
    from pulser.devices import MockDevice

    n = 3 if seqk == "xy-slm" else 2
    d = float(rng.uniform(7, 9))
    reg = Register({f"q{i}": (i * d, 0.0) for i in range(n)})
    seq = Sequence(reg, MockDevice)
    om, de, T = float(rng.uniform(3, 8)), float(rng.uniform(-6, 6)), int(rng.choice([100, 160]))
    if seqk.startswith("xy"):
        seq.declare_channel("mw", "mw_global")
        if seqk == "xy-slm":
            seq.config_slm_mask(["q2"])  # an END atom: a masked atom between two driven ones triggers the known TDVP finding (C02), which is not this check's subject
        seq.add(Pulse.ConstantPulse(T, om, de, 0.3), "mw")
        seq.add(Pulse.ConstantPulse(T // 2, om / 2, 0.0, 0.0), "mw")
        return seq
    if seqk == "digital-only":
        seq.declare_channel("ram", "raman_global")
        seq.add(Pulse.ConstantPulse(T, om, de, 0.0), "ram")
        return seq
    if seqk == "ryd-local":
        seq.declare_channel("l", "rydberg_local", initial_target="q1")
        seq.add(Pulse.ConstantPulse(T, om, de, 0.2), "l")
        seq.target("q0", "l")
        seq.add(Pulse.ConstantPulse(T // 2, om, 0.0, 0.0), "l")
        return seq
    seq.declare_channel("g", "rydberg_global")
    if seqk != "ryd-global":
        seq.declare_channel("ram", "raman_local", initial_target="q0")
    seq.add(Pulse.ConstantPulse(T, om, de, 0.2), "g")
    if seqk == "ryd+digital-driven":
        seq.add(Pulse.ConstantPulse(T // 2, 2.0, 0.0, 0.0), "ram", protocol="no-delay")
    elif seqk == "ryd+digital-detuning-only":
        seq.add(Pulse.ConstantPulse(T // 2, 0.0, float(rng.uniform(2, 6)), 0.0), "ram", protocol="no-delay")
    return seq


def noise_model(noise, rng, xy):
    from pulser import NoiseModel

    if noise == "none":
        return None
    if noise == "dephasing":
        return NoiseModel(dephasing_rate=0.2)
    if noise == "relaxation":
        return NoiseModel(relaxation_rate=0.2)
    if noise == "depolarizing":
        return NoiseModel(depolarizing_rate=0.2)
    if noise == "eff2":
        return NoiseModel(eff_noise_rates=[0.3], eff_noise_opers=[np.array([[0, 1.0], [0, 0]])])
    if noise == "leakage3":
        op = np.zeros((3, 3))
        op[2, 0] = 1.0
        return NoiseModel(eff_noise_rates=[0.3], eff_noise_opers=[op], with_leakage=True)
    if noise == "hyperfine":
        return NoiseModel(dephasing_rate=0.1, hyperfine_dephasing_rate=0.05)
    if noise == "spam":
        return NoiseModel(state_prep_error=0.1, p_false_pos=0.01, p_false_neg=0.02)
    if noise == "amplitude":
        return NoiseModel(amp_sigma=0.05, laser_waist=100.0)
    raise ValueError(noise)


def run_case(case):
    import emu_mps
    import emu_sv
    from emu_mps.solver import Solver

    rng = np.random.default_rng(case["seed"])
    b, seqk, noise = case["backend"], case["seq"], case["noise"]
    cnt = {k: 0 for k in REQUIRED}
    cnt["rejected"] = 0
    viol = []
    cell = f"{b}|{seqk}|{noise}"
    sup = supported(b, seqk, noise)
    try:
        seq = build(seqk, rng)
        nm = noise_model(noise, rng, seqk.startswith("xy"))
    except Exception as e:
        cnt["rejected"] += 1  # Pulser refuses to build it
        return {"fp": cell, "nontrivial": True, "violations": [], "counters": cnt, "max": {}, "sample": {"cell": cell, "outcome": f"pulser refuses: {type(e).__name__}"}}
    M = emu_sv if b == "sv" else emu_mps
    obs = [M.Occupation(evaluation_times=[0.5, 1.0])]
    kw = dict(dt=5.0, observables=obs, log_level=e2e.quiet())
    if nm is not None:
        kw["noise_model"] = nm
        kw["n_trajectories"] = 2
    outcome = None
    try:
        if b == "sv":
            cfg = emu_sv.SVConfig(gpu=False, **kw)
            B = emu_sv.SVBackend
        else:
            cfg = emu_mps.MPSConfig(num_gpus_to_use=0, solver=Solver.DMRG if b == "mps-dmrg" else Solver.TDVP, **kw)
            B = emu_mps.MPSBackend
        with e2e.recording(B) as rec:
            res = B(seq, config=cfg).run()
        outcome = "returned"
    except Exception as e:
        import traceback

        fr = [f"{f.filename.split('/')[-1]}:{f.name}" for f in traceback.extract_tb(e.__traceback__) if "/emu_" in f.filename]
        origin = "pulser" if not fr else fr[-1]
        outcome = f"raised {type(e).__name__} in {origin}"
        exc = e
    cnt["cells_run"] += 1
    if sup is False:
        cnt["unsupported_cells_checked"] += 1
        if outcome == "returned":
            kind = "multi-basis" if "digital" in seqk else "xy" if seqk.startswith("xy") else "noise"
            viol.append({"key": f"C04:returns-results-for-unsupported-configuration:{b}:{kind}:{seqk if kind != 'noise' else noise}",
                         "msg": f"{cell}: run() returned occupations {[np.round(e2e.to_np(x), 4).tolist() for x in res.occupation]}"})
    else:
        # the property allows a backend to refuse; what it forbids is returning something else than the dynamics Pulser defines
        cnt["supported_cells_checked"] += 1
        if outcome != "returned":
            cnt["supported_cell_refused"] = cnt.get("supported_cell_refused", 0) + 1
        elif noise == "none" and b != "mps-dmrg":
            snap, _ = rec[0]
            states, hams = e2e.propagate(snap, None, umode="start" if b == "sv" else "mid")
            cnt["reference_spot_checks"] += 1
            n = snap["omega"].shape[1]
            for t in (0.5, 1.0):
                k, _off = e2e.time_index(snap, t)
                want = e2e.ref_observables(states[k], hams[max(k - 1, 0)], n, snap["dim"])["occupation"]
                got = e2e.to_np(res.get_result("occupation", t)).astype(float)
                tol = 1e-3 if n <= 2 else 2e-2
                if got.shape != want.shape or np.abs(got - want).max() > tol:
                    viol.append({"key": f"C04:supported-configuration-gives-wrong-occupations:{b}:{seqk}", "msg": f"{cell}: t={t} got {np.round(got, 5).tolist()} want {np.round(want, 5).tolist()}"})
                    break
    return {"fp": cell, "nontrivial": True, "violations": viol, "counters": cnt, "max": {},
            "sample": {"cell": cell, "expected_supported": sup, "outcome": outcome} if case["idx"] % 20 == 0 else None}
