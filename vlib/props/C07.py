"""C07 — Krylov exponentiation is accurate and honest about convergence.

Monitor: postcondition on the real `emu_base.math.krylov_exp.krylov_exp_impl` (and on the raise of the
public `krylov_exp`).  The operator is materialised as a dense matrix A *before* the call (v is normalised in
place by the callee, so v and |v| are snapshotted first) and `scipy.linalg.expm(A) @ v` is the oracle.
"""
import numpy as np

from vlib import krylov_model, ref

ID = "C07"
LEVEL = "exploration"
ENGINE = "unit-contracts"
TECHNIQUE = "runtime postcondition on krylov_exp_impl/krylov_exp vs scipy expm on generated operator classes"
LEVEL_TEXT = ("Exploration: on every call the postcondition 'converged => |result-expm(A)v| <= (10 tol + rounding)|v|; "
              "happy_breakdown => converged; iteration_count <= max_krylov_dim; public entry raises iff not converged' is "
              "evaluated against scipy's dense expm for the three operator classes the emulators exponentiate, dim 1..256, "
              "tolerances 1e-4..1e-12, max_krylov_dim 1..100, incl. invariant subspaces (happy breakdown) and stiff cases.")
LEVEL_NOTE = ("Trusts scipy.linalg.expm (float64). Rounding allowance (2e-13*(1+|A|_2)+2e-10)*|v| (torch matrix_exp floor) (measured worst excess on the "
              "pinned tree is reported in evidence).")
RULE = ("operator class in {anti-Hermitian -i dt H, non-Hermitian -i dt (H - iG/2) with G>=0, dt*Lindblad generator acting on "
        "matrices}; spectra {random, clustered, degenerate, block-diagonal with v inside a block, stiff}; dim 1..256; "
        "tol 1e-4..1e-12; max_krylov_dim 1..100; is_hermitian both where legal; v random complex of random norm, 1-D/2-D/3-D "
        "tensors. distinct = (class, spectrum, dim, tol exponent, kdim, herm flag); non-trivial = |A| > 1e-3 and dim >= 2")
ASSUMPTIONS = [
    "oracle scipy.linalg.expm of the densely materialised operator (op applied to the identity)",
    "v is non-zero (a zero vector has no direction to normalise; the emulators never pass one)",
    "rounding allowance 2e-13*(1+|A|_2) + 2e-10 relative to |v| on top of 10*tol; the 2e-10 is the measured accuracy floor of torch.linalg.matrix_exp (errors up to 9.3e-11 for norms in [1e-2,1e-1))",
]
REQUIRED = ["impl_calls", "converged_checked", "public_calls", "not_converged_seen", "happy_breakdown_seen"]
# torch.linalg.matrix_exp (which the routine uses on the small Krylov matrix) is only accurate to ~1e-10 for matrix norms in
# [1e-2, 1e-1) (measured against scipy over 4000 matrices: up to 9.3e-11); no requested tolerance can beat that floor.
MEXP_FLOOR = 2e-10
BATCH = 12
CLASSES = ["antiherm", "nonherm", "lindblad", "rydberg-basis"]
SPECTRA = ["random", "clustered", "degenerate", "block", "stiff"]


def gen_cases(tier, seed):
    rng = np.random.default_rng(seed)
    reps = 3 if tier == "quick" else 40
    cases = []
    for _ in range(reps):
        for c in CLASSES:
            for s in SPECTRA:
                cases.append({"cls": c, "spec": s, "seed": int(rng.integers(1 << 30)), "count": BATCH,
                              "big": tier == "thorough"})
    return cases


def _herm(rng, d, spec, scale):
    """random Hermitian matrix with the requested spectrum shape, spectral radius ~ scale"""
    if spec == "random":
        ev = rng.normal(size=d)
    elif spec == "clustered":
        centers = rng.normal(size=max(1, min(3, d)))
        ev = centers[rng.integers(len(centers), size=d)] + 1e-6 * rng.normal(size=d)
    elif spec == "degenerate":
        vals = rng.normal(size=max(1, min(3, d)))
        ev = vals[rng.integers(len(vals), size=d)]
    else:
        ev = rng.normal(size=d)
    m = np.max(np.abs(ev)) or 1.0
    ev = ev / m * scale
    q, _ = np.linalg.qr(rng.normal(size=(d, d)) + 1j * rng.normal(size=(d, d)))
    return (q * ev) @ q.conj().T


def _psd(rng, d, scale):
    k = max(1, d // 3)
    b = rng.normal(size=(d, k)) + 1j * rng.normal(size=(d, k))
    g = b @ b.conj().T
    return g / (np.linalg.norm(g, 2) or 1.0) * scale


def _build(rng, cls, spec, big):
    """returns (A dense (D,D), v ndarray of arbitrary shape with D entries, legal herm flags)"""
    from vlib import ref  # noqa

    scale = float(10 ** rng.uniform(-2, 0.8))
    if spec == "stiff":
        scale = float(rng.uniform(8, 60))
    if cls == "rydberg-basis":
        # what emu-sv exponentiates at the start of a pulse: -i dt H with a weak drive, large detunings/interactions, v a basis state
        n = int(rng.integers(1, 7 if not big else 9))
        om = rng.uniform(0, 1, size=n) * 10 ** rng.uniform(-3, 1)
        de = rng.uniform(-30, 30, size=n)
        ph = rng.uniform(0, 6.28, size=n) * (rng.random() < 0.5)
        U = np.zeros((n, n))
        iu = np.triu_indices(n, 1)
        U[iu] = 10 ** rng.uniform(-1, 2.5, size=len(iu[0]))
        U = U + U.T
        H = ref.dense_hamiltonian(om, de, ph, U)
        dt = float(rng.choice([0.0005, 0.001, 0.007, 0.01, 0.033]))
        v = np.zeros(2 ** n, dtype=complex)
        v[int(rng.integers(2 ** n)) if rng.random() < 0.5 else 0] = 1.0
        if spec in ("clustered", "degenerate"):
            v = v + 1e-3 * (rng.normal(size=2 ** n) + 1j * rng.normal(size=2 ** n))
        return -1j * dt * H, v, [True]
    if cls == "lindblad":
        n = int(rng.integers(1, 4 if not big else 5))  # D = 2^n, superoperator dim 4^n <= 256
        D = 2 ** n
        H = _herm(rng, D, "random" if spec in ("block", "stiff") else spec, scale if spec != "stiff" else rng.uniform(4, 20))
        jumps = []
        for q in range(n):
            for _ in range(int(rng.integers(0, 3))):
                L = (rng.normal(size=(2, 2)) + 1j * rng.normal(size=(2, 2))) * rng.uniform(0.05, 1.0)
                jumps.append(ref.op_on(L, q, n))
        A = ref.liouvillian(H, jumps) * rng.uniform(0.05, 1.0)
        x = rng.normal(size=(D, D)) + 1j * rng.normal(size=(D, D))
        rho = x @ x.conj().T
        rho = rho / np.trace(rho).real * 10 ** rng.uniform(-1, 1)
        return A, rho, [False]
    dmax = 256 if big else 96
    u = rng.random()
    d = int(rng.integers(1, 5)) if u < 0.15 else int(rng.integers(5, 40)) if u < 0.7 else int(rng.integers(40, dmax + 1))
    if spec == "block" and d >= 4:
        k = int(rng.integers(1, max(2, d // 2)))
        H = np.zeros((d, d), dtype=complex)
        H[:k, :k] = _herm(rng, k, "random", scale)
        H[k:, k:] = _herm(rng, d - k, "random", scale)
        v = np.zeros(d, dtype=complex)
        v[:k] = rng.normal(size=k) + 1j * rng.normal(size=k)
    else:
        H = _herm(rng, d, spec, scale)
        v = rng.normal(size=d) + 1j * rng.normal(size=d)
        if rng.random() < 0.1:  # eigenvector start: breakdown at the first step
            w, q = np.linalg.eigh(H)
            v = q[:, int(rng.integers(d))] * (1 + 0j)
    v = v * 10 ** rng.uniform(-3, 3)
    if cls == "antiherm":
        A = -1j * H
        flags = [True, False]
    else:
        G = _psd(rng, d, scale * rng.uniform(0.05, 1.0))
        if spec == "block" and d >= 4:
            G[:k, k:] = 0
            G[k:, :k] = 0
        A = -1j * (H - 0.5j * G)
        flags = [False]
    # the emulators hand 3-D tensors (bond, phys, bond) to the routine: reshape when possible
    if d % 4 == 0 and rng.random() < 0.5:
        v = v.reshape(d // 4, 2, 2)
    elif d % 2 == 0 and rng.random() < 0.3:
        v = v.reshape(2, d // 2)
    return A, v, flags


def run_case(case):
    import torch
    import scipy.linalg as sla
    import importlib
    ke = importlib.import_module("emu_base.math.krylov_exp")

    rng = np.random.default_rng(case["seed"])
    cnt = {k: 0 for k in REQUIRED}
    cnt.update({"rejected": 0})
    viol, fps = [], []
    worst = {"err_over_10tol": 0.0, "rounding_excess_over_allowance": 0.0}
    sample = None
    for _ in range(case["count"]):
        A, v, flags = _build(rng, case["cls"], case["spec"], case["big"])
        D = A.shape[0]
        shape = v.shape
        herm = bool(flags[int(rng.integers(len(flags)))])
        tol = float(10 ** rng.uniform(-12, -4))
        u = rng.random()
        kdim = int(rng.integers(1, 6)) if u < 0.2 else int(rng.integers(6, 31)) if u < 0.6 else int(rng.integers(31, 101))
        At = torch.tensor(A, dtype=torch.complex128)

        def op(x, At=At, shape=shape):
            return (At @ x.reshape(-1)).reshape(shape)

        vt = torch.tensor(v, dtype=torch.complex128).reshape(shape)
        vnorm = float(np.linalg.norm(v))
        want = (sla.expm(A) @ v.reshape(-1))
        a2 = float(np.linalg.norm(A, 2))
        try:
            res = ke.krylov_exp_impl(op, vt.clone(), is_hermitian=herm, exp_tolerance=tol, norm_tolerance=tol,
                                     max_krylov_dim=kdim)
        except Exception as e:  # the routine must always answer (converged or not)
            cnt["impl_calls"] += 1
            viol.append({"key": f"C07:impl-raises:{type(e).__name__}", "msg": f"{case['cls']}/{case['spec']} D={D} tol={tol:.1e} kdim={kdim}: {e}"[:300]})
            continue
        cnt["impl_calls"] += 1
        desc = f"{case['cls']}/{case['spec']} D={D} herm={herm} tol={tol:.1e} kdim={kdim} |A|={a2:.3g} |v|={vnorm:.3g}"
        if res.iteration_count > kdim or res.iteration_count < 1:
            viol.append({"key": "C07:iteration-count-exceeds-max-krylov-dim", "msg": f"{desc}: {res.iteration_count}"})
        if res.happy_breakdown:
            cnt["happy_breakdown_seen"] += 1
            if not res.converged:
                viol.append({"key": "C07:happy-breakdown-without-converged", "msg": desc})
        got = res.result.detach().numpy().reshape(-1)
        err = float(np.linalg.norm(got - want)) / vnorm
        allowance = 2e-13 * (1 + a2) + MEXP_FLOOR
        if res.converged:
            cnt["converged_checked"] += 1
            if tuple(res.result.shape) != tuple(shape):
                viol.append({"key": "C07:result-shape-changed", "msg": f"{desc}: {tuple(res.result.shape)} vs {shape}"})
            worst["err_over_10tol"] = max(worst["err_over_10tol"], err / (10 * tol))
            if err > 10 * tol:
                worst["rounding_excess_over_allowance"] = max(worst["rounding_excess_over_allowance"], (err - 10 * tol) / allowance)
            if not err <= 10 * tol + allowance:
                kind = "happy-breakdown" if res.happy_breakdown else "converged"
                key = f"C07:{kind}-but-inaccurate:{case['cls']}:herm={herm}"
                if not res.happy_breakdown and krylov_model.explained_by_pinned_algorithm(A, v.reshape(-1), herm, tol, tol, kdim, got, res.iteration_count):
                    key = "C07:converged-early:error-estimate-optimistic"
                    cnt["optimistic_estimate_cases"] = cnt.get("optimistic_estimate_cases", 0) + 1
                viol.append({"key": key,
                             "msg": f"{desc}: rel.err {err:.3e} > 10*tol+rounding ({10*tol+allowance:.3e}), iterations {res.iteration_count}",
                             "detail": {"A_re": A.real.tolist(), "A_im": A.imag.tolist()} if D <= 8 else None})
        else:
            cnt["not_converged_seen"] += 1
        # public entry point: raises iff not converged, else returns the same vector
        raised = False
        try:
            pub = ke.krylov_exp(op, vt.clone(), exp_tolerance=tol, norm_tolerance=tol, is_hermitian=herm, max_krylov_dim=kdim)
        except RecursionError:
            raised = True
        except Exception as e:
            raised = True
            viol.append({"key": f"C07:public-raises-other:{type(e).__name__}", "msg": f"{desc}: {e}"[:300]})
        cnt["public_calls"] += 1
        if raised == res.converged:
            viol.append({"key": "C07:public-entry-dishonest" + (":returned-unconverged" if not raised else ":raised-although-converged"),
                         "msg": desc})
        elif not raised:
            perr = float(np.linalg.norm(pub.detach().numpy().reshape(-1) - want)) / vnorm
            if not perr <= 10 * tol + allowance and not err > 10 * tol + allowance:
                viol.append({"key": f"C07:public-result-inaccurate:{case['cls']}", "msg": f"{desc}: rel.err {perr:.3e}"})
        if a2 > 1e-3 and D >= 2:
            fps.append(f"{case['cls']}:{case['spec']}:{D}:{int(np.floor(np.log10(tol)))}:{kdim}:{herm}")
        if sample is None and D <= 4:
            sample = {"class": case["cls"], "spectrum": case["spec"], "dim": D, "tol": tol, "max_krylov_dim": kdim,
                      "is_hermitian": herm, "converged": bool(res.converged), "happy_breakdown": bool(res.happy_breakdown),
                      "iterations": int(res.iteration_count), "rel_err": err}
    return {"fp": None, "nontrivial": False, "fps": fps, "n_eval": case["count"], "violations": viol[:6], "counters": cnt,
            "max": worst, "sample": sample if case["idx"] % 5 == 0 else None}
