"""C21 — the simulation time grid covers the sequence and every evaluation time.

Monitor: contract on `PulserData.target_times` / `_get_target_times` and on the stream of `SequenceData`
yielded by `PulserData.get_sequences()`, against Pulser's own duration, the requested evaluation times and the
trajectory repetition counts of pulser-core's `HamiltonianData`; plus a step counter on `SVBackendImpl.step` /
`MPSBackendImpl.timestep_complete` in real runs.
"""
import numpy as np

from vlib import adapter, seqgen

ID = "C21"
LEVEL = "exploration"
ENGINE = "adapter-oracle"
TECHNIQUE = "runtime contract on PulserData.target_times / get_sequences() vs pulser-core (duration, evaluation times, trajectory reps); step counter on the solvers"
LEVEL_TEXT = ("Exploration: for generated sequences (durations 1..10000 ns), dt in [0.1, 2*duration], evaluation-time sets (grid-coincident, "
              "rational, irrational, last-ns, dense), modulation on/off, n_trajectories 1..50 with and without shot-to-shot noise the contract "
              "(starts at 0, ends at the duration, strictly increasing, contains every k*dt and every requested time and nothing else; "
              "#SequenceData = n_trajectories = sum of Pulser's reps; solver steps = intervals) is evaluated on the real PulserData.")
LEVEL_NOTE = "Times are compared with an absolute tolerance of 1e-9*max(1,duration) ns; a gap below that between consecutive targets is reported as a near-duplicate."
RULE = ("(duration class, dt/duration class, evaluation style, modulation, noise kind, n_trajectories); distinct = that tuple + hash of times; "
        "non-trivial = at least one requested time is not a multiple of dt and dt < duration")
ASSUMPTIONS = ["Sequence.get_duration(include_fall_time=with_modulation) is the definition of the sequence duration",
               "pulser-core's HamiltonianData.noise_trajectories reps define how often a trajectory must be simulated"]
REQUIRED = ["grids_checked", "sequence_streams_checked", "solver_step_counts_checked"]
BATCH = 10
STYLES = adapter.EVAL_STYLES


def gen_cases(tier, seed):
    rng = np.random.default_rng(seed)
    reps = 3 if tier == "quick" else 40
    return [{"style": st, "seed": int(rng.integers(1 << 30)), "count": BATCH, "runs": 1 if tier == "quick" else 2}
            for _ in range(reps) for st in STYLES]


def _noise(rng, kind):
    from pulser import NoiseModel

    if kind == "none":
        return None
    if kind == "spam":
        return NoiseModel(state_prep_error=float(rng.uniform(0.05, 0.4)), p_false_pos=0.01, p_false_neg=0.02)
    if kind == "amplitude":
        return NoiseModel(amp_sigma=float(rng.uniform(0.01, 0.1)), laser_waist=float(rng.uniform(50, 200)))
    if kind == "detuning":
        return NoiseModel(detuning_sigma=float(rng.uniform(0.1, 1.0)))
    if kind == "doppler":
        return NoiseModel(temperature=float(rng.uniform(10, 60)))
    if kind == "register":
        return NoiseModel(temperature=float(rng.uniform(10, 60)), trap_waist=1.0, trap_depth=float(rng.uniform(100, 300)), disable_doppler=True)
    if kind == "relaxation":
        return NoiseModel(relaxation_rate=float(rng.uniform(0.1, 1)))
    raise ValueError(kind)


NOISES = ["none", "none", "spam", "amplitude", "detuning", "doppler", "register", "relaxation"]


def run_case(case):
    from pulser.backend import BitStrings, Occupation
    from emu_base.pulser_adapter import PulserData, _get_target_times
    from emu_sv import SVBackend, SVConfig
    from emu_mps import MPSBackend, MPSConfig
    import emu_sv.sv_backend_impl as svi
    import emu_mps.mps_backend_impl as mpi
    from vlib import e2e

    rng = np.random.default_rng(case["seed"])
    cnt = {k: 0 for k in REQUIRED}
    cnt["rejected"] = 0
    viol, fps = [], []
    sample = None
    for it in range(case["count"]):
        dur_class = str(rng.choice(["tiny", "short", "medium", "long"]))
        maxd = {"tiny": 6, "short": 60, "medium": 600, "long": 3400}[dur_class]
        mind = {"tiny": 1, "short": 8, "medium": 60, "long": 600}[dur_class]
        mod = bool(rng.random() < 0.3) and dur_class != "tiny"
        n = int(rng.integers(2, 4))
        spec = seqgen.random_spec(rng, n=n, basis="ising", dmin=7.0, max_dur=maxd, min_dur=mind, n_pulses=int(rng.integers(1, 4)),
                                  modulation=mod, wf_kinds=["const", "ramp", "blackman"] if dur_class != "tiny" else ["const", "ramp"],
                                  delays=dur_class != "tiny", local=bool(rng.random() < 0.2))
        try:
            seq = seqgen.build(spec)
        except Exception:
            cnt["rejected"] += 1
            continue
        duration = adapter.expected_duration(seq, mod)
        u = rng.random()
        dt = float(duration * 10 ** rng.uniform(-2.5, 0.3)) if u < 0.5 else float(rng.choice([0.1, 0.25, 0.3, 0.5, 1, 2.5, 3, 7, 10, 33, 100]))
        dt = max(dt, max(0.1, duration / 3000))
        times = adapter.rand_eval_times(rng, case["style"], duration, dt)
        own = adapter.rand_eval_times(rng, str(rng.choice(STYLES)), duration, dt) if rng.random() < 0.5 else None
        nk = str(rng.choice(NOISES))
        ntraj = int(rng.integers(1, 51)) if nk != "none" or rng.random() < 0.3 else None
        obs = [Occupation(evaluation_times=own), BitStrings()]
        kw = dict(observables=obs, default_evaluation_times=times, with_modulation=mod, log_level=e2e.quiet(), dt=dt)
        if _noise(rng, nk) is not None:
            rng2 = np.random.default_rng(int(rng.integers(1 << 30)))
            kw["noise_model"] = _noise(rng2, nk)
        if ntraj is not None:
            kw["n_trajectories"] = ntraj
        cfg = SVConfig(gpu=False, **kw)
        desc = f"duration={duration:g} dt={dt!r} style={case['style']} own={'yes' if own else 'no'} mod={mod} noise={nk} n_traj={ntraj}"
        try:
            pd = PulserData(sequence=seq, config=cfg, dt=dt)
            tt = [float(t) for t in pd.target_times]
            tt2 = [float(t) for t in _get_target_times(seq, cfg, dt)]
        except Exception as e:
            cnt["grids_checked"] += 1
            viol.append({"key": f"C21:pulserdata-raises:{type(e).__name__}", "msg": f"{desc}: {e}"[:300]})
            continue
        cnt["grids_checked"] += 1
        tol = 1e-9 * max(1.0, duration)
        req = sorted(adapter.requested_times(cfg))
        grid = [k * dt for k in range(int(np.floor(duration / dt + 1e-12)) + 1) if k * dt <= duration + tol]
        want_abs = grid + [t * duration for t in req] + [duration]
        arr = np.asarray(tt)
        if tt != tt2:
            viol.append({"key": "C21:target-times-not-reproducible", "msg": desc})
        if arr[0] != 0.0:
            viol.append({"key": "C21:grid-does-not-start-at-zero", "msg": f"{desc}: first={arr[0]!r}"})
        if abs(arr[-1] - duration) > 0:
            viol.append({"key": "C21:grid-does-not-end-at-duration", "msg": f"{desc}: last={arr[-1]!r}"})
        gaps = np.diff(arr)
        if len(gaps) and not np.all(gaps > 0):
            viol.append({"key": "C21:grid-not-strictly-increasing", "msg": f"{desc}: min gap {gaps.min()!r}"})
        elif len(gaps) and gaps.min() <= tol:
            i = int(np.argmin(gaps))
            viol.append({"key": "C21:near-duplicate-target-times", "msg": f"{desc}: {arr[i]!r} and {arr[i+1]!r}"})
        missing = [w for w in want_abs if np.min(np.abs(arr - w)) > tol]
        if missing:
            which = "grid-multiple" if any(np.min(np.abs(np.asarray(grid) - m)) <= tol for m in missing) else "evaluation-time"
            viol.append({"key": f"C21:{which}-missing-from-target-times", "msg": f"{desc}: e.g. {missing[0]!r}"})
        wa = np.asarray(want_abs)
        extra = [t for t in tt if np.min(np.abs(wa - t)) > tol]
        if extra:
            viol.append({"key": "C21:unrequested-target-time", "msg": f"{desc}: e.g. {extra[0]!r}"})
        # ---- stream of SequenceData
        try:
            reps = [r for _, r in pd.hamiltonian.noise_trajectories]
            seqs = list(pd.get_sequences())
            cnt["sequence_streams_checked"] += 1
            if len(seqs) != sum(reps):
                viol.append({"key": "C21:number-of-sequence-data-differs-from-pulser-reps", "msg": f"{desc}: {len(seqs)} vs reps {reps}"})
            if ntraj is not None and len(seqs) != ntraj:
                viol.append({"key": "C21:number-of-sequence-data-differs-from-n_trajectories", "msg": f"{desc}: {len(seqs)}"})
            pos = 0
            for r in reps:  # each trajectory's data repeated r times, consecutively
                block = seqs[pos:pos + r]
                if any(b.omega is not block[0].omega and not np.array_equal(b.omega.numpy(), block[0].omega.numpy()) for b in block):
                    viol.append({"key": "C21:repetitions-of-one-trajectory-differ", "msg": desc})
                    break
                pos += r
            for sd in seqs[:3]:
                if [float(t) for t in sd.target_times] != tt or sd.omega.shape[0] != len(tt) - 1:
                    viol.append({"key": "C21:sequence-data-grid-differs-from-pulserdata", "msg": f"{desc}: omega rows {sd.omega.shape[0]} for {len(tt)} target times"})
                    break
        except Exception as e:
            viol.append({"key": f"C21:get_sequences-raises:{type(e).__name__}", "msg": f"{desc}: {e}"[:300]})
        nontrivial = dt < duration and any(abs(t * duration / dt - round(t * duration / dt)) > 1e-6 for t in req)
        if nontrivial:
            fps.append(f"{dur_class}:{np.round(np.log10(dt / duration), 0)}:{case['style']}:{mod}:{nk}:{ntraj}:{hash(tuple(np.round(req, 9))) & 0xffff:x}")
        # ---- one solver step per interval (small runs only)
        if it < case["runs"] and len(tt) <= 400 and nk in ("none", "detuning"):  # SPAM (bad atoms) is judged by C25
            steps = {"sv": 0, "mps": 0}
            o_sv, o_mps = svi.SVBackendImpl.step, mpi.MPSBackendImpl.timestep_complete

            def sv_step(self, idx, _o=o_sv):
                steps["sv"] += 1
                return _o(self, idx)

            def mps_done(self, _o=o_mps):
                steps["mps"] += 1
                return _o(self)

            svi.SVBackendImpl.step = sv_step
            mpi.MPSBackendImpl.timestep_complete = mps_done
            try:
                kw1 = dict(kw)
                kw1["n_trajectories"] = 1 if nk != "none" else None
                SVBackend(seq, config=SVConfig(gpu=False, **kw1)).run()
                MPSBackend(seq, config=MPSConfig(num_gpus_to_use=0, **kw1)).run()
                cnt["solver_step_counts_checked"] += 2
                for b in ("sv", "mps"):
                    if steps[b] != len(tt) - 1:
                        viol.append({"key": f"C21:{b}-solver-steps-differ-from-intervals", "msg": f"{desc}: {steps[b]} steps for {len(tt)-1} intervals"})
            except Exception as e:
                import traceback

                fr = [f"{f.filename.split('/')[-1]}:{f.name}" for f in traceback.extract_tb(e.__traceback__) if "/emu_" in f.filename]
                viol.append({"key": f"C21:run-raises:{type(e).__name__}", "msg": f"{desc}: {e} [{' > '.join(fr[-4:])}] steps so far {steps} target_times {tt[:6]}"[:600],
                             "detail": {"spec": spec, "target_times": tt}})
            finally:
                svi.SVBackendImpl.step = o_sv
                mpi.MPSBackendImpl.timestep_complete = o_mps
        if sample is None:
            sample = {"duration": duration, "dt": dt, "default_evaluation_times": times, "own_evaluation_times": own, "with_modulation": mod,
                      "noise": nk, "n_trajectories": ntraj, "target_times_head": tt[:8], "n_target_times": len(tt)}
    return {"fp": None, "nontrivial": False, "fps": fps, "n_eval": case["count"], "violations": viol[:6], "counters": cnt, "max": {},
            "sample": sample if case["idx"] % 4 == 0 else None}
