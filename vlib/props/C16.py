"""C16 — emu-sv open-system runs solve the Lindblad equation and stay physical.

Monitor: boundary recorder on `SVBackend._run_from_sequence_data` with Lindbladian noise + dense reference: exact
propagation of the piecewise-constant Lindblad generator built from the recorded `SequenceData` (drives,
interactions and the very jump operators the solver was given); physicality invariants (Hermitian, unit trace,
positive semidefinite) on every stored density matrix; in-situ contract on the non-Hermitian Krylov steps.
"""
import numpy as np

from vlib import e2e, ref, seqgen

ID = "C16"
LEVEL = "exploration"
ENGINE = "e2e-reference"
TECHNIQUE = "boundary recorder on SVBackend._run_from_sequence_data + dense Lindblad-generator reference; physicality invariants; in-situ Krylov step monitor"
LEVEL_TEXT = ("Exploration: generated ground-rydberg sequences (1-5 atoms, all waveform kinds, mixed zero/non-zero phases, local channel, DMM, SLM) "
              "with dephasing, relaxation, depolarizing, random 2x2 effective operators and their combinations, random rates, dt, "
              "krylov tolerances and random initial density matrices, plus 1-4 us constant-drive runs (80-160 steps) with generic effective operators; every stored density matrix and observable is compared with exact "
              "evolution of the recorded piecewise-constant Lindblad generator and checked for Hermiticity, trace 1 and positivity.")
LEVEL_NOTE = "Pulser's master-equation reference (qutip) is not installed: that clause is decided as this check + C24 (jump operators equal Pulser's lindblad_data) + C21-C23."
RULE = "(N, noise kinds, channels, phase mode, dt, krylov tol, initial state); distinct = structural fingerprint; non-trivial = purity drops below 1-1e-4 and the state changes"
ASSUMPTIONS = ["tolerance |d rho|_F <= n_steps*(10*krylov_tolerance + 2e-10) + 1e-9 (torch matrix_exp floor, see C07)",
               "lambda_min >= -(that tolerance), |tr-1| and |rho-rho^dag| <= that tolerance"]
REQUIRED = ["runs", "states_compared", "values_compared", "physicality_checked", "krylov_steps_monitored"]
SHARD_TIMEOUT = {"quick": 1700, "thorough": 5 * 3600}
KINDS = ["dephasing", "relaxation", "depolarizing", "eff", "eff+relaxation", "all"]


def gen_cases(tier, seed):
    rng = np.random.default_rng(seed)
    n_cases = 48 if tier == "quick" else 480
    cases = []
    for i in range(n_cases):
        u = rng.random()
        n = int(rng.integers(1, 4)) if u < 0.6 else 4 if u < 0.9 else 5
        cases.append({"seed": int(rng.integers(1 << 30)), "n": n, "kind": KINDS[i % len(KINDS)], "local": bool(rng.random() < 0.3),
                      "dmm": bool(rng.random() < 0.2), "slm": bool(rng.random() < 0.2 and n >= 2),
                      "dt": float(rng.choice([1, 2.5, 5, 10, 10, 25])) if n < 5 else 10.0,
                      "ktol": float(10.0 ** float(rng.choice([-6, -8, -10]))), "init": bool(rng.random() < 0.3)})
        if i % 8 == 3:
            # long runs (80-160 steps) with generic effective operators: rounding-level defects of the state (anti-Hermitian part, trace) have time to grow
            cases[-1].update(long=True, n=int(rng.integers(2, 5)), kind=str(rng.choice(["eff", "all", "eff+relaxation"])), local=False, dmm=False, slm=False, dt=25.0, init=False)
    return cases


def noise_model(rng, kind):
    from pulser import NoiseModel

    kw = {}
    if kind in ("dephasing", "all"):
        kw["dephasing_rate"] = float(10 ** rng.uniform(-1.5, 0.7))
    if kind in ("relaxation", "eff+relaxation", "all"):
        kw["relaxation_rate"] = float(10 ** rng.uniform(-1.5, 0.7))
    if kind in ("depolarizing", "all"):
        kw["depolarizing_rate"] = float(10 ** rng.uniform(-1.5, 0.7))
    if kind in ("eff", "eff+relaxation", "all"):
        k = int(rng.integers(1, 4))
        def eff_op():
            # structured operators next to generic ones: exactly diagonal with a complex relative phase, triangular, Hermitian, real
            m = rng.normal(size=(2, 2)) + 1j * rng.normal(size=(2, 2))
            kind = str(rng.choice(["full", "full", "diagonal-complex", "upper", "lower", "hermitian", "real"]))
            if kind == "diagonal-complex":
                m = np.diag(np.diag(m))
            elif kind == "upper":
                m = np.triu(m, 1)
            elif kind == "lower":
                m = np.tril(m, -1)
            elif kind == "hermitian":
                m = m + m.conj().T
            elif kind == "real":
                m = m.real.astype(complex)
            return m

        kw["eff_noise_opers"] = [eff_op() for _ in range(k)]
        kw["eff_noise_rates"] = [float(10 ** rng.uniform(-1.5, 0.5)) for _ in range(k)]
    return NoiseModel(**kw), kw


def run_case(case):
    import torch
    from emu_sv import (SVBackend, SVConfig, StateResult, Occupation, CorrelationMatrix, Energy, EnergySecondMoment, EnergyVariance, DensityMatrix)

    rng = np.random.default_rng(case["seed"])
    n = case["n"]
    spec = seqgen.random_spec(rng, n=n, basis="ising", dmin=6.0, local=case["local"], dmm=case["dmm"], slm=case["slm"],
                              max_dur=60 if n == 5 else 150, min_dur=16, n_pulses=int(rng.integers(1, 3 if n == 5 else 4)))
    if case.get("long"):
        d = float(rng.uniform(5.0, 9.0))
        spec = {"basis": "ising", "device": "mock", "atoms": [[f"q{i}", d * (i % 2), d * (i // 2)] for i in range(n)], "has_global": True, "ops": []}
        for _ in range(int(rng.integers(1, 3))):
            T = int(rng.choice([1000, 1500, 2000]))
            spec["ops"].append({"op": "pulse", "ch": "g", "amp": ["const", T, float(rng.uniform(2, 8))], "det": ["const", T, float(rng.uniform(-8, 8))], "phase": float(rng.choice([0.0, 2.2]))})
    seq = seqgen.build(spec)
    nm, nkw = noise_model(rng, case["kind"])
    times = sorted({0.0, 1.0} | {float(x) for x in rng.choice([0.2, 1 / 3, 0.5, 0.71, 0.9], size=2)})
    obs = [StateResult(evaluation_times=times), Occupation(evaluation_times=times), CorrelationMatrix(evaluation_times=times),
           Energy(evaluation_times=times), EnergySecondMoment(evaluation_times=times), EnergyVariance(evaluation_times=times)]
    kw = {}
    rho0 = None
    D = 2 ** n
    if case["init"]:
        x = rng.normal(size=(D, D)) + 1j * rng.normal(size=(D, D))
        rho0 = x @ x.conj().T
        rho0 /= np.trace(rho0).real
        kw["initial_state"] = DensityMatrix(torch.tensor(rho0, dtype=torch.complex128), gpu=False)
    cfg = SVConfig(dt=case["dt"], krylov_tolerance=case["ktol"], observables=obs, noise_model=nm, log_level=e2e.quiet(), gpu=False, **kw)
    cnt = {k: 0 for k in REQUIRED}
    cnt["rejected"] = 0
    viol, worst = [], {}
    fp = f"{case['kind']}:" + seqgen.describe(spec) + f":dt{case['dt']:g}:init{int(case['init'])}"
    sample = {"spec": spec, "noise": {k: (np.round(np.asarray(v), 3).tolist() if k == "eff_noise_opers" else v) for k, v in nkw.items()},
              "dt": case["dt"], "krylov_tolerance": case["ktol"], "evaluation_times": times}
    try:
        with e2e.recording(SVBackend) as rec, e2e.krylov_recording(max_dim=1100) as kcalls:
            results = SVBackend(seq, config=cfg).run()
    except Exception as e:
        import traceback

        fr = [f"{f.filename.split('/')[-1]}:{f.name}" for f in traceback.extract_tb(e.__traceback__) if "/emu_" in f.filename]
        cnt["runs"] += 1
        viol.append({"key": f"C16:run-raises:{type(e).__name__}:{fr[-1] if fr else '?'}", "msg": f"{fp}: {e}"[:400], "detail": {"spec": spec}})
        return {"fp": fp, "nontrivial": False, "violations": viol, "counters": cnt, "max": worst, "sample": sample}
    cnt["runs"] += 1
    snap, _ = rec[0]
    if not snap["lindblad_ops"]:
        viol.append({"key": "C16:no-jump-operators-reached-the-solver", "msg": fp})
        return {"fp": fp, "nontrivial": False, "violations": viol, "counters": cnt, "max": worst, "sample": sample}
    nsteps = len(snap["target_times"]) - 1
    tol = nsteps * (10 * case["ktol"] + 2e-10) + 1e-9
    straddle = e2e.straddles_slm(snap)
    best = None
    for um in (["start", "mid"] if straddle else ["start"]):
        states, hams = e2e.propagate_lindblad(snap, rho0, umode=um)
        alt = [e2e.step_hamiltonian(snap, k, "mid" if um == "start" else "start") for k in range(nsteps)] if straddle else None
        v, w, c = e2e.compare_results(results, snap, states, hams, state_tol=tol, obs_tol=tol, is_density=True, alt_hams=alt)
        if best is None or len(v) < len(best[0]):
            best = (v, w, c, states, hams)
        if not v:
            break
    v, w, c, states, hams = best
    # in-situ Krylov contract (N <= 5: generator of dimension <= 1024)
    excess, known = 0.0, 0
    if n <= 5:
        jumps = ref.local_jumps(snap["lindblad_ops"], n, 2)
        gens = [ref.liouvillian(H, jumps) for H in hams]
        excess, known, other = e2e.krylov_step_excess(kcalls, None, snap["target_times"], gens=gens)
        cnt["krylov_steps_monitored"] += len(kcalls)
        for k_, err_, tol_ in other[:2]:
            viol.append({"key": "C16:in-situ-krylov-step-inaccurate" if k_ >= 0 else "C16:solver-did-not-exponentiate-once-per-step",
                         "msg": f"{fp}: step {k_} local error {err_:.3e} with tolerance {tol_:.1e} ({len(kcalls)} calls, {nsteps} steps)"})
    if v and known:
        v2, w2, c2 = e2e.compare_results(results, snap, states, hams, state_tol=tol + excess, obs_tol=tol + 2 * excess, is_density=True)
        if not v2:
            viol.append({"key": "C16:krylov-early-stop-exceeds-tolerance", "msg": f"{fp}: {known} step(s) stopped by the optimistic estimate, local excess {excess:.3e}; first strict deviation {v[0][1]}"})
            v = []
    for key, msg in v[:3]:
        viol.append({"key": "C16:" + key, "msg": f"{fp} ktol={case['ktol']:.0e} steps={nsteps}: {msg}", "detail": {"spec": spec}})
    worst.update(w)
    cnt["states_compared"] += c["states_compared"]
    cnt["values_compared"] += c["values_compared"]
    # physicality of every stored density matrix
    ptol = tol + excess
    minpur = 1.0
    for t_rel in results.get_result_times("state"):
        rho = e2e.state_to_dense(results.get_result("state", t_rel))
        cnt["physicality_checked"] += 1
        herm = float(np.linalg.norm(rho - rho.conj().T))
        tr = float(abs(np.trace(rho) - 1))
        lam = float(np.linalg.eigvalsh(0.5 * (rho + rho.conj().T)).min())
        minpur = min(minpur, float(np.real(np.trace(rho @ rho))))
        worst["hermiticity_dev_over_tol"] = max(worst.get("hermiticity_dev_over_tol", 0.0), herm / ptol)
        worst["trace_dev_over_tol"] = max(worst.get("trace_dev_over_tol", 0.0), tr / ptol)
        worst["negativity_over_tol"] = max(worst.get("negativity_over_tol", 0.0), -lam / ptol)
        if herm > ptol:
            viol.append({"key": "C16:density-matrix-not-hermitian", "msg": f"{fp}: t={t_rel:.3g} |rho-rho^dag|={herm:.2e}"})
        if tr > ptol:
            viol.append({"key": "C16:trace-not-one", "msg": f"{fp}: t={t_rel:.3g} |tr-1|={tr:.2e}"})
        if lam < -ptol:
            viol.append({"key": "C16:density-matrix-not-positive", "msg": f"{fp}: t={t_rel:.3g} lambda_min={lam:.2e}"})
    nontrivial = bool(minpur < 1 - 1e-4 and np.linalg.norm(states[-1] - states[0]) > 1e-3)
    return {"fp": fp, "nontrivial": nontrivial, "violations": viol[:6], "counters": cnt, "max": worst, "sample": sample if case["idx"] % 12 == 0 else None}
