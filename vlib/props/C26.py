"""C26 — resuming from an autosave gives the same results as an uninterrupted run.

Crash enumeration: a fake clock makes every `progress()` end with an autosave; a wrapper on `save_simulation` copies
the file after the k-th completed save and kills the run (BaseException); `MPSBackend.resume(copy)` must then
return what the uninterrupted run returns.  Noisy runs: the state of Python's `random` and torch's generator at the
crash point is recorded and restored before resuming, so the resumed run draws what the uninterrupted run drew and
the comparison is path-wise equality (which implies equality in distribution).
"""
import os
import shutil

import numpy as np

from vlib import crash, e2e, seqgen

ID = "C26"
LEVEL = "fault_enumeration"
ENGINE = "crash-enumeration"
TECHNIQUE = "crash injection after every autosave (fake clock, save_simulation wrapper) followed by MPSBackend.resume; oracle = results of the uninterrupted run (RNG state restored for noisy runs)"
LEVEL_TEXT = ("Fault enumeration: for 3-5 atom sequences with 3-6 time steps, TDVP / DMRG / noisy (quantum-jump) solvers, qubit reordering on and off, "
              "the run is killed after each of its autosaves (all of them in the thorough tier, 8 spread points in quick) and resumed from a copy of the "
              "file; tags, times, atom order (= register order) and values must equal the uninterrupted run's element-wise to 1e-10 relative; the autosave file must be gone "
              "when a run (resumed or not) finishes.")
LEVEL_NOTE = "The pickle carries the current jump threshold but not the RNG state: without restoring it only the distribution could be compared; restoring it turns the clause into path-wise equality."
RULE = "(solver kind, reordering, N, #steps, crash index k); distinct = that tuple; non-trivial = 0 < k < number of autosaves and (for reordering) a non-identity permutation"
ASSUMPTIONS = ["values compared element-wise after type normalisation (lists from the checkpoint vs tensors): |a-b| <= 1e-12 + 1e-10|a| (a resumed run is deterministic)",
               "for noisy runs random.getstate()/torch.get_rng_state() captured at the crash point are restored before resume"]
REQUIRED = ["uninterrupted_runs", "crash_points", "resumed_runs_compared", "nonidentity_permutations", "jump_runs"]
SHARD_TIMEOUT = {"quick": 1700, "thorough": 5 * 3600}
KINDS = ["tdvp", "dmrg", "noisy"]


def gen_cases(tier, seed):
    rng = np.random.default_rng(seed)
    reps = 1 if tier == "quick" else 4
    out = []
    for r in range(reps):
        for kind in KINDS:
            for reorder in (False, True):
                out.append({"kind": kind, "reorder": reorder, "seed": int(rng.integers(1 << 30)), "points": 8 if tier == "quick" else -1})
    return out


def _build(case, rng):
    import emu_mps
    from emu_mps.solver import Solver
    from pulser import NoiseModel

    kind = case["kind"]
    n = int(rng.integers(3, 6))
    spec = seqgen.random_spec(rng, n=n, basis="ising", dmin=7.5, spread=0.6, max_dur=40, min_dur=20, n_pulses=int(rng.integers(1, 3)), wf_kinds=["const", "ramp", "blackman"],
                              amp_max=8.0, det_max=8.0, shuffle_ids=True, local=bool(rng.random() < 0.5 and kind != "dmrg"), layout=str(rng.choice(["ring", "grid", "random"])),
                              phase_mode="zero" if kind == "dmrg" else None, delays=False)
    seq = seqgen.build(spec)
    dur = seq.get_duration()
    dt = float(max(5.0, round(dur / float(rng.integers(3, 7)))))
    times = sorted({min(1.0, k * dt / dur) for k in range(0, int(dur // dt) + 1)} | {1.0})
    obs = [emu_mps.Occupation(evaluation_times=times), emu_mps.CorrelationMatrix(evaluation_times=times), emu_mps.Energy(evaluation_times=times),
           emu_mps.BitStrings(evaluation_times=[times[len(times) // 2], 1.0], num_shots=20)]
    kw = dict(dt=dt, autosave_dt=10.5, observables=obs, log_level=e2e.quiet(), num_gpus_to_use=0, optimize_qubit_ordering=case["reorder"], autosave_prefix="c26_", precision=1e-8)
    if kind == "dmrg":
        kw["solver"] = Solver.DMRG
    if kind == "noisy":
        kw["noise_model"] = NoiseModel(relaxation_rate=float(rng.uniform(3, 10)), dephasing_rate=float(rng.uniform(0.5, 3)))
        kw["n_trajectories"] = 1
    return spec, seq, (lambda: emu_mps.MPSConfig(**kw)), times


def _norm(v):
    from collections import Counter

    if isinstance(v, (dict, Counter)):
        return ("bits", dict(v))
    return ("num", np.asarray(e2e.to_np(v), dtype=float))


def _compare(ref, got, desc, viol, where):
    tags_r = sorted(t for t in ref.get_result_tags() if t != "statistics")
    tags_g = sorted(t for t in got.get_result_tags() if t != "statistics")
    if tags_r != tags_g:
        viol.append({"key": "C26:resumed-results-have-different-observables", "msg": f"{desc}: {tags_g} vs {tags_r}"})
        return
    if tuple(got.atom_order) != tuple(ref.atom_order):
        viol.append({"key": "C26:resumed-atom-order-differs", "msg": f"{desc}: {got.atom_order} vs {ref.atom_order}"})
    for tag in tags_r:
        tr, tg = [float(t) for t in ref.get_result_times(tag)], [float(t) for t in got.get_result_times(tag)]
        if len(tr) != len(tg) or any(abs(a - b) > 1e-12 for a, b in zip(tr, tg)):
            viol.append({"key": f"C26:resumed-times-differ:{tag}", "msg": f"{desc}: {tg} vs {tr}"})
            continue
        for t in tr:
            (ka, a), (kb, b) = _norm(ref.get_result(tag, t)), _norm(got.get_result(tag, t))
            if ka == "bits":
                if a != b:
                    viol.append({"key": "C26:resumed-bitstrings-differ" + where, "msg": f"{desc}: t={t:.3g} {b} vs {a}"})
                    return
            elif a.shape != b.shape or np.any(np.abs(a - b) > 1e-12 + 1e-10 * np.abs(a)):  # element-wise: a resumed run is deterministic
                dev = float(np.abs(a - b).max()) if a.shape == b.shape else float("nan")
                kind = "precision-loss" if dev < 1e-6 else "values-permuted" if a.shape == b.shape and np.abs(np.sort(a.ravel()) - np.sort(b.ravel())).max() < 1e-9 else "values"
                viol.append({"key": f"C26:resumed-values-differ:{tag}:{kind}" + where, "msg": f"{desc}: t={t:.3g} max dev {dev:.3e}"})
                return


def run_case(case):
    import random

    import torch
    import emu_mps
    import emu_mps.mps_backend_impl as mpi

    rng = np.random.default_rng(case["seed"])
    kind, reorder = case["kind"], case["reorder"]
    cnt = {k: 0 for k in REQUIRED}
    viol, fps = [], []
    spec, seq, mkcfg, times = _build(case, rng)
    ids = tuple(a[0] for a in spec["atoms"])
    fpb = f"{kind}:re{int(reorder)}:n{len(ids)}:steps{len(times)}"
    jumps = {"n": 0}
    rseed = {"v": case["seed"]}
    nonid = {"n": 0}
    o_jump = mpi.NoisyMPSBackendImpl.do_random_quantum_jump
    o_save = mpi.MPSBackendImpl.save_simulation

    def jump(self, _o=o_jump):
        jumps["n"] += 1
        return _o(self)

    mpi.NoisyMPSBackendImpl.do_random_quantum_jump = jump

    def run_with(crash_after, store):
        """run under the fake clock; after the crash_after-th completed save copy the file, record the RNG states and die"""
        state = {"k": 0}

        def save(self, _o=o_save):
            before = self.autosave_file.is_file() and os.path.getmtime(self.autosave_file)
            r = _o(self)
            if self.autosave_file.is_file():
                state["k"] += 1
                if state["k"] == 1 and not np.array_equal(self.qubit_permutation.numpy(), np.arange(len(self.qubit_permutation))):
                    nonid["n"] += 1
                if crash_after is not None and state["k"] == crash_after:
                    shutil.copy(self.autosave_file, store["copy"])
                    store["py"] = random.getstate()
                    store["torch"] = torch.get_rng_state()
                    store["path"] = str(self.autosave_file)
                    raise crash.Crash(f"after save {crash_after}")
            return r

        mpi.MPSBackendImpl.save_simulation = save
        try:
            random.seed(rseed["v"])
            torch.manual_seed(rseed["v"])
            res = emu_mps.MPSBackend(seq, config=mkcfg()).run()
            return res, state["k"]
        finally:
            mpi.MPSBackendImpl.save_simulation = o_save

    try:
        with crash.workdir() as d, crash.fake_clock():
            try:
                for attempt in range(20):  # noisy runs: pick RNG seeds until the uninterrupted run contains a quantum jump
                    rseed["v"] = case["seed"] + attempt
                    jumps["n"] = 0
                    ref, nsaves = run_with(None, {})
                    if kind != "noisy" or jumps["n"] > 0:
                        break
            except Exception as e:
                return {"fp": fpb, "nontrivial": False, "violations": [{"key": f"C26:uninterrupted-run-raises:{type(e).__name__}", "msg": f"{fpb}: {e}"[:300], "detail": {"spec": spec}}],
                        "counters": cnt, "max": {}, "sample": None}
            cnt["uninterrupted_runs"] += 1
            if [f for f in os.listdir(d) if f.startswith("c26_")]:
                viol.append({"key": "C26:autosave-file-not-removed-after-run", "msg": f"{fpb}: {os.listdir(d)}"})
            if tuple(ref.atom_order) != ids:
                viol.append({"key": "C26:atom-order-differs-from-register", "msg": f"{fpb}: {ref.atom_order}"})
            if kind == "noisy" and jumps["n"] > 0:
                cnt["jump_runs"] += 1
            if nsaves < 3:
                return {"fp": fpb, "nontrivial": False, "violations": viol, "counters": cnt, "max": {}, "sample": None, "harness_error": f"only {nsaves} autosaves"}
            ks = list(range(1, nsaves + 1))
            if case["points"] > 0 and len(ks) > case["points"]:
                ks = sorted({int(x) for x in np.linspace(1, nsaves, case["points"])})
            for k in ks:
                store = {"copy": os.path.join(d, f"copy_{k}.dat")}
                desc = f"{fpb} crash after autosave {k}/{nsaves}"
                try:
                    run_with(k, store)
                    viol.append({"key": "C26:harness-crash-point-not-reached", "msg": desc})
                    continue
                except crash.Crash:
                    pass
                cnt["crash_points"] += 1
                for f in os.listdir(d):  # the dead process leaves its live file behind: remove it, resume from the copy
                    if f.startswith("c26_"):
                        os.remove(os.path.join(d, f))
                random.setstate(store["py"])
                torch.set_rng_state(store["torch"])
                try:
                    got = emu_mps.MPSBackend.resume(store["copy"])
                except Exception as e:
                    import traceback

                    fr = [f"{f.filename.split('/')[-1]}:{f.name}" for f in traceback.extract_tb(e.__traceback__) if "/emu_" in f.filename]
                    viol.append({"key": f"C26:resume-raises:{type(e).__name__}:{fr[-1] if fr else '?'}", "msg": f"{desc}: {e}"[:300]})
                    continue
                cnt["resumed_runs_compared"] += 1
                _compare(ref, got, desc, viol, ":noisy" if kind == "noisy" else "")
                if os.path.exists(store["copy"]):
                    viol.append({"key": "C26:autosave-file-not-removed-after-resumed-run", "msg": f"{desc}: {os.listdir(d)}"})
                fps.append(f"{fpb}:{k}")
                if len(viol) > 6:
                    break
    finally:
        mpi.NoisyMPSBackendImpl.do_random_quantum_jump = o_jump
        mpi.MPSBackendImpl.save_simulation = o_save
    cnt["nonidentity_permutations"] += nonid["n"]
    if not reorder:
        cnt["nonidentity_permutations"] += 0
    return {"fp": None, "nontrivial": False, "fps": fps, "n_eval": max(1, cnt["crash_points"]), "violations": viol[:6], "counters": cnt, "max": {},
            "sample": {"kind": kind, "reorder": reorder, "spec": spec, "autosaves": nsaves, "crash_points": ks, "jumps_in_uninterrupted_run": jumps["n"]}}
