"""C29 — physically equivalent inputs give equivalent results.

Metamorphic monitor on both backends: a generated sequence S and a transformed copy S' that describes the same
physics are run through the real backend; occupations, correlations, energies and the Born / bitstring
distribution must agree.  Transformations: rigid motions of the register (exactly representable ones: integer
shifts, quarter turns, mirror; and arbitrary angles with a tolerance scaled by Pulser's 1e-6 um coordinate
rounding), a constant offset on all drive phases, phase negation where it IS a symmetry (see ASSUMPTIONS), and the
abstract-representation / JSON round trips of the sequence.
"""
import copy
import json
import math

import numpy as np

from vlib import e2e, ref, seqgen

ID = "C29"
LEVEL = "exploration"
ENGINE = "e2e-reference"
TECHNIQUE = "metamorphic run pairs (register isometries, phase offset, conjugation symmetry, serialisation round trip) on both backends; comparison of occupations, correlations, energies, Born probabilities / bitstring statistics"
LEVEL_TEXT = ("Exploration: sequences with global and local drives, DMM, SLM, phases drawn from {0, pi/2, pi, random} (the emulators special-case "
              "some of them), 2-7 atoms; each transformation applied to emu-sv (state-vector level comparison) and emu-mps (same site order in "
              "both runs, so that TDVP numerics coincide).")
LEVEL_NOTE = ("Negating all phases is complex conjugation (time reversal), a symmetry of the reported quantities only without detuning and interaction; "
              "it is checked there, and in its general form: negate phases AND detunings AND the sign of a user interaction matrix => same occupations, energy sign flipped.")
RULE = "(backend, transformation, N, channels, phase set); distinct = that tuple + hash; non-trivial = some occupation > 1e-3 and the transformation is not the identity"
ASSUMPTIONS = ["exact transformations: tolerance 1e-7 (sv) / 1e-6 + the two runs' measured distances to exact evolution of their own recorded parameters (triangle inequality) (mps, reordering off; energy relative to |H|); arbitrary rotation: 2e-4 (coordinates are rounded to 1e-6 um by Pulser, U ~ r^-6)",
               "phase negation is only asserted (a) for delta == 0 and a zero interaction matrix, (b) combined with delta -> -delta and U -> -U (user matrix), where it is a symmetry",
               "phase transformations are applied to sequences in which no atom is driven by two channels at once (Pulser adds the phases of overlapping channels, so a common offset would count twice there)",
               "bitstrings: marginal frequencies of the two runs agree within 6 sigma of the binomial error (emu-mps) / Born probabilities agree (emu-sv)"]
REQUIRED = ["pairs_run", "values_compared", "transformations_seen"]
SHARD_TIMEOUT = {"quick": 1700, "thorough": 5 * 3600}
TRANSFORMS = ["shift", "quarter-turn", "mirror", "rotation", "phase-offset", "phase-negation-resonant", "conjugation", "abstract-repr", "json"]


def gen_cases(tier, seed):
    rng = np.random.default_rng(seed)
    reps = 4 if tier == "quick" else 60
    return [{"seed": int(rng.integers(1 << 30)), "backend": bk, "transform": tr} for _ in range(reps) for tr in TRANSFORMS for bk in ("sv", "mps")]


def _phases(spec, rng):
    choices = [0.0, math.pi, math.pi / 2, 3 * math.pi / 2]
    for op in spec["ops"]:
        if op["op"] == "pulse":
            op["phase"] = float(rng.choice(choices)) if rng.random() < 0.7 else float(rng.uniform(0, 2 * math.pi))


def _negate(w, sign=-1.0):
    k = w[0]
    if k == "const":
        return ["const", w[1], sign * w[2]]
    if k == "ramp":
        return ["ramp", w[1], sign * w[2], sign * w[3]]
    if k == "blackman":
        return ["blackman", w[1], sign * w[2]]
    if k == "interp":
        return ["interp", w[1], [sign * v for v in w[2]]]
    if k == "custom":
        return ["custom", [sign * v for v in w[1]]]
    if k == "composite":
        return ["composite", [_negate(x, sign) for x in w[1]]]
    raise ValueError(k)


def run_case(case):
    import pulser
    import emu_mps
    import emu_sv

    rng = np.random.default_rng(case["seed"])
    bk, tr = case["backend"], case["transform"]
    n = int(rng.integers(2, 7)) if bk == "sv" else int(rng.integers(2, 6))
    conj = tr in ("phase-negation-resonant", "conjugation")
    spec = seqgen.random_spec(rng, n=n, basis="ising", dmin=7.0, spread=0.6, local=bool(rng.random() < 0.4 and tr not in ("phase-offset", "phase-negation-resonant", "conjugation")), dmm=bool(rng.random() < 0.3 and not conj),
                              slm=bool(rng.random() < 0.25 and not conj), max_dur=120, min_dur=24, n_pulses=int(rng.integers(2, 4)), amp_max=8.0, det_max=10.0,
                              shuffle_ids=True, wf_kinds=["const", "ramp", "blackman", "interp"])
    _phases(spec, rng)
    kw2 = {}
    kw1 = {}
    user = None
    if tr == "shift":
        spec2 = seqgen.move(spec, shift=(float(rng.integers(-30, 31)), float(rng.integers(-30, 31))))
        tol_class = "exact"
    elif tr == "quarter-turn":
        spec2 = seqgen.move(spec)
        for a in spec2["atoms"]:
            a[1], a[2] = -a[2], a[1]
        tol_class = "exact"
    elif tr == "mirror":
        spec2 = seqgen.move(spec, mirror=True)
        tol_class = "exact"
    elif tr == "rotation":
        spec2 = seqgen.move(spec, angle=float(rng.uniform(0, 2 * math.pi)), shift=(float(rng.uniform(-5, 5)), float(rng.uniform(-5, 5))))
        tol_class = "rounded"
    elif tr == "phase-offset":
        spec2 = seqgen.phase_offset(spec, float(rng.choice([math.pi / 3, 1.0, -0.7, math.pi / 2, 2.5])))
        tol_class = "exact"
    elif tr == "phase-negation-resonant":
        for op in spec["ops"]:
            if op["op"] == "pulse":
                op["det"] = ["const", seqgen.wf_duration(op["amp"]), 0.0]
        spec2 = copy.deepcopy(spec)
        for op in spec2["ops"]:
            if op["op"] == "pulse":
                op["phase"] = -op["phase"]
        user = np.zeros((n, n))
        tol_class = "exact"
    elif tr == "conjugation":
        A = rng.normal(size=(n, n)) * 8
        user = (A + A.T) / 2
        np.fill_diagonal(user, 0.0)
        spec2 = copy.deepcopy(spec)
        for op in spec2["ops"]:
            if op["op"] == "pulse":
                op["phase"] = -op["phase"]
                op["det"] = _negate(op["det"])
        tol_class = "exact"
    else:
        spec2 = spec
        tol_class = "exact"
    fp = f"{bk}:{tr}:n{n}:" + seqgen.describe(spec)
    cnt = {k: 0 for k in REQUIRED}
    viol, worst = [], {}
    try:
        seq1 = seqgen.build(spec)
        if tr == "abstract-repr":
            seq2 = pulser.Sequence.from_abstract_repr(seq1.to_abstract_repr())
        elif tr == "json":
            seq2 = pulser.Sequence.from_abstract_repr(json.dumps(json.loads(seq1.to_abstract_repr())))
        else:
            seq2 = seqgen.build(spec2)
    except Exception as e:
        cnt["rejected"] = 1
        return {"fp": fp, "nontrivial": False, "violations": [], "counters": cnt, "max": {}, "sample": {"note": f"pulser refused: {type(e).__name__}: {e}"[:200]}}
    M = emu_sv if bk == "sv" else emu_mps
    times = [0.37, 1.0]
    shots = 2000

    def config(sign_u=1.0):
        obs = [M.Occupation(evaluation_times=times), M.CorrelationMatrix(evaluation_times=times), M.Energy(evaluation_times=times), M.BitStrings(evaluation_times=[1.0], num_shots=shots)]
        if bk == "sv":
            obs.append(M.StateResult(evaluation_times=[1.0]))
        kw = dict(dt=5.0, observables=obs, log_level=e2e.quiet())
        if user is not None:
            kw["interaction_matrix"] = sign_u * user
        if bk == "sv":
            return emu_sv.SVConfig(gpu=False, krylov_tolerance=1e-10, **kw)
        return emu_mps.MPSConfig(num_gpus_to_use=0, precision=1e-9, optimize_qubit_ordering=False, **kw)

    B = emu_sv.SVBackend if bk == "sv" else emu_mps.MPSBackend
    try:
        e2e_seed = int(rng.integers(1 << 30))
        import random
        import torch

        random.seed(e2e_seed)
        torch.manual_seed(e2e_seed)
        with e2e.recording(B) as rec1:
            r1 = B(seq1, config=config()).run()
        random.seed(e2e_seed + 1)
        torch.manual_seed(e2e_seed + 1)
        with e2e.recording(B) as rec2:
            r2 = B(seq2, config=config(-1.0 if tr == "conjugation" else 1.0)).run()
    except Exception as e:
        import traceback

        fr = [f"{f.filename.split('/')[-1]}:{f.name}" for f in traceback.extract_tb(e.__traceback__) if "/emu_" in f.filename]
        cnt["pairs_run"] += 1
        return {"fp": fp, "nontrivial": False, "violations": [{"key": f"C29:run-raises:{tr}:{type(e).__name__}:{fr[-1] if fr else 'pulser'}", "msg": f"{fp}: {e}"[:300], "detail": {"spec": spec}}],
                "counters": cnt, "max": worst, "sample": None}
    cnt["pairs_run"] += 1
    cnt["transformations_seen"] += 1
    # --- are the two runs given physically equivalent step parameters?  (adapter-level comparison of the recorded SequenceData)
    s1, s2 = rec1[0][0], rec2[0][0]
    phase_artefact = False
    if s1["omega"].shape == s2["omega"].shape:
        on = (np.abs(s1["omega"]) > 1e-9) | (np.abs(s2["omega"]) > 1e-9)
        c_off = 0.0
        if tr == "phase-offset":
            c_off = [op2["phase"] - op1["phase"] for op1, op2 in zip(spec["ops"], spec2["ops"]) if op1["op"] == "pulse"][0]
        sgn = -1.0 if conj else 1.0
        dphi = np.abs(np.exp(1j * s2["phi"].real) - np.exp(1j * (sgn * s1["phi"].real + c_off)))
        dsgn = -1.0 if tr == "conjugation" else 1.0
        if np.abs(s1["omega"] - s2["omega"]).max() > 1e-9 or np.abs(s2["delta"] - dsgn * s1["delta"]).max() > 1e-9:
            viol.append({"key": f"C29:solver-inputs-differ-under-{tr}:{bk}:amplitude-or-detuning", "msg": f"{fp}: omega diff {np.abs(s1['omega'] - s2['omega']).max():.2e} delta diff {np.abs(s2['delta'] - dsgn * s1['delta']).max():.2e}"})
        elif (dphi * on).max() > 1e-9:
            # the drive PHASE given to the solver differs at some driven step: the adapter interpolates the phase as a real number across
            # pulse boundaries, so the value there depends on the 2*pi representation Pulser normalises to (known finding)
            phase_artefact = True
            k_, j_ = np.unravel_index(int(np.argmax(dphi * on)), dphi.shape)
            steps_bad = np.unique(np.argwhere(dphi * on > 1e-9)[:, 0])
            ph1 = s1["phi"].real
            change = np.zeros(ph1.shape[0], dtype=bool)  # steps where the phase given to the solver changes in time (pulse boundaries)
            if ph1.shape[0] > 1:
                jump = (np.abs(np.diff(ph1, axis=0)).max(axis=1) > 1e-12) | (np.abs(np.diff(s2["phi"].real, axis=0)).max(axis=1) > 1e-12)
                for k in np.argwhere(jump)[:, 0]:
                    change[max(0, k - 2): k + 4] = True
            inside = [int(k) for k in steps_bad if not change[k]]
            cnt["phase_interpolation_artefacts"] = cnt.get("phase_interpolation_artefacts", 0) + 1
            if inside:
                viol.append({"key": f"C29:solver-phase-differs-under-{tr}:{bk}:inside-a-pulse", "msg": f"{fp}: steps {inside[:6]} of {ph1.shape[0]}"})
    tol = {"exact": 1e-7 if bk == "sv" else 1e-6, "rounded": 2e-4}[tol_class]
    esign = -1.0 if conj else 1.0  # K-conjugation combined with H -> -H: occupations unchanged, energy changes sign
    moved = False
    if phase_artefact:
        # the solver was legitimately given different phases at pulse-boundary steps: the result difference is attributed to that iff each
        # run still agrees with exact evolution of ITS OWN recorded step parameters (checked here for <= 7 atoms)
        ok_own = True
        for snap, res in ((s1, r1), (s2, r2)):
            st, hm = e2e.propagate(snap, None, umode="start" if bk == "sv" else "mid")
            want = e2e.ref_observables(st[-1], hm[-1], n, 2)["occupation"]
            got = e2e.to_np(e2e.get_at(res, "occupation", 1.0)).astype(float)
            if np.abs(got - want).max() > (1e-5 if bk == "sv" else 2e-2 if n > 2 else 1e-5):
                ok_own = False
        if ok_own:
            o1 = e2e.to_np(e2e.get_at(r1, "occupation", 1.0)).astype(float)
            o2 = e2e.to_np(e2e.get_at(r2, "occupation", 1.0)).astype(float)
            if np.abs(o1 - o2).max() > (1e-7 if bk == "sv" else 1e-6):
                viol.append({"key": "C29:phase-interpolated-across-2pi-wrap", "msg": f"{fp}: occupations differ by {np.abs(o1 - o2).max():.2e} under {tr}; phases {[round(op['phase'], 4) for op in spec['ops'] if op['op'] == 'pulse']}"})
            return {"fp": fp, "nontrivial": True, "violations": viol[:4], "counters": cnt, "max": worst, "sample": None}
        viol.append({"key": f"C29:run-disagrees-with-its-own-step-parameters-under-{tr}:{bk}", "msg": fp})
        return {"fp": fp, "nontrivial": True, "violations": viol[:4], "counters": cnt, "max": worst, "sample": None}
    hscale = 1.0
    if bk == "mps":
        # TDVP's own error (3e-4 in a 5-atom SLM run at precision 1e-9) is not reproduced bit for bit in another gauge / frame: runs of
        # equivalent inputs differ by a few percent of that error (measured 6e-6; 3e-16 for emu-sv). The comparison tolerance therefore
        # carries 5% of the two runs' measured distance to exact evolution of their own recorded parameters (N <= 7), and the energy is
        # compared relative to the size of the Hamiltonian, not of the (possibly cancelling) energy itself.
        own, exact_states = [], []
        for snap_, res_ in ((s1, r1), (s2, r2)):
            if n <= 7:
                st_, hm_ = e2e.propagate(snap_, None, umode="mid")
                exact_states.append((snap_, st_))
                got_ = e2e.to_np(e2e.get_at(res_, "correlation_matrix", 1.0)).astype(float)
                own.append(float(np.abs(got_ - ref.correlations(st_[-1], n, 2)).max()))
                hscale = max(hscale, 1.0 + max(float(np.linalg.norm(h_, 2)) for h_ in hm_[:: max(1, len(hm_) // 8)]))
            else:
                own.append(2e-4)
                hscale = max(hscale, 1.0 + float(np.abs(snap_["delta"]).sum(axis=1).max() + np.abs(snap_["omega"]).sum(axis=1).max() / 2))
        if max(own) > 2e-2:
            viol.append({"key": f"C29:run-disagrees-with-its-own-step-parameters-under-{tr}:{bk}", "msg": f"{fp}: distance to exact evolution {own}"})
        tol_base = tol
        worst["mps_own_tdvp_error"] = max(worst.get("mps_own_tdvp_error", 0.0), max(own))
    for t in times:
        o1, o2 = e2e.to_np(e2e.get_at(r1, "occupation", t)).astype(float), e2e.to_np(e2e.get_at(r2, "occupation", t)).astype(float)
        c1, c2 = e2e.to_np(e2e.get_at(r1, "correlation_matrix", t)).astype(float), e2e.to_np(e2e.get_at(r2, "correlation_matrix", t)).astype(float)
        E1, E2 = float(e2e.get_at(r1, "energy", t)), float(e2e.get_at(r2, "energy", t))
        cnt["values_compared"] += 3
        moved = moved or o1.max() > 1e-3
        if bk == "mps":
            # two runs that are each within dev_i of the SAME exact value cannot differ by more than dev_1 + dev_2: a sound allowance
            if len(exact_states) == 2:
                devs = []
                for (snap_, st_), c_ in zip(exact_states, (c1, c2)):
                    k_, _off = e2e.time_index(snap_, t)
                    devs.append(float(np.abs(c_ - ref.correlations(st_[k_], n, 2)).max()))
                tol = tol_base + sum(devs)
            else:
                tol = tol_base + 4e-4
        d_o, d_c, d_e = float(np.abs(o1 - o2).max()), float(np.abs(c1 - c2).max()), abs(E1 - esign * E2) / (max(hscale, 1 + abs(E1)) if bk == "mps" else (1 + abs(E1)))
        worst[f"{tol_class}_occupation_diff_over_tol"] = max(worst.get(f"{tol_class}_occupation_diff_over_tol", 0.0), d_o / tol)
        worst[f"{tol_class}_energy_diff_over_tol"] = max(worst.get(f"{tol_class}_energy_diff_over_tol", 0.0), d_e / (tol * 10))
        if d_o > tol or d_c > tol:
            viol.append({"key": f"C29:occupations-or-correlations-change-under-{tr}:{bk}", "msg": f"{fp}: t={t} max diff occ {d_o:.2e} corr {d_c:.2e} (tol {tol:.0e}); phases {[round(op['phase'], 4) for op in spec['ops'] if op['op'] == 'pulse']}",
                         "detail": {"spec": spec}})
            break
        if d_e > tol * 10:
            viol.append({"key": f"C29:energy-changes-under-{tr}:{bk}", "msg": f"{fp}: t={t} E {E1!r} vs {esign * E2!r}", "detail": {"spec": spec}})
            break
    if not viol:
        if bk == "sv":
            p1 = np.abs(e2e.state_to_dense(e2e.get_at(r1, "state", 1.0))) ** 2
            p2 = np.abs(e2e.state_to_dense(e2e.get_at(r2, "state", 1.0))) ** 2
            cnt["values_compared"] += 1
            if np.abs(p1 - p2).max() > tol:
                viol.append({"key": f"C29:born-distribution-changes-under-{tr}:sv", "msg": f"{fp}: max diff {np.abs(p1 - p2).max():.2e}"})
        b1, b2 = e2e.get_at(r1, "bitstrings", 1.0), e2e.get_at(r2, "bitstrings", 1.0)
        m1 = np.array([sum(k for s_, k in b1.items() if s_[i] == "1") for i in range(n)]) / shots
        m2 = np.array([sum(k for s_, k in b2.items() if s_[i] == "1") for i in range(n)]) / shots
        p = 0.5 * (m1 + m2)
        if sum(b1.values()) != shots or sum(b2.values()) != shots or np.any(np.abs(m1 - m2) > 6 * np.sqrt(2 * np.clip(p * (1 - p), 0, None) / shots) + 2e-3):
            viol.append({"key": f"C29:bitstring-statistics-change-under-{tr}:{bk}", "msg": f"{fp}: marginals {np.round(m1, 3).tolist()} vs {np.round(m2, 3).tolist()}"})
    return {"fp": fp, "nontrivial": bool(moved), "violations": viol[:4], "counters": cnt, "max": worst,
            "sample": {"backend": bk, "transform": tr, "spec": spec} if case["idx"] % 18 == 0 else None}
