"""C18 — quantum-jump stepping completes every time step once, in order, and terminates.

Trace automaton.  Events are recorded by wrapping, on the class, the methods of the noisy emu-mps solver
(`progress`, `sweep_complete`, `timestep_complete`, `fill_results`, `do_random_quantum_jump`) and by replacing the
`BrentsRootFinder` name inside emu_mps.mps_backend_impl by a recording subclass (every bracket, abscissa and
ordinate of each jump-time search).  The trace is checked online by a small state machine.  Reach comes from real
noisy runs with strong rates plus *threshold injection*: `random.uniform` - the only source of jump thresholds - is
scripted to return thresholds just below the current squared norm, tiny ones, or random ones, which forces jumps
at step boundaries, several per step and immediately after a jump.
"""
import math

import numpy as np

from vlib import e2e, seqgen

ID = "C18"
LEVEL = "exploration"
ENGINE = "trace-automaton"
TECHNIQUE = "online trace automaton over method-level events of NoisyMPSBackendImpl + recording BrentsRootFinder; threshold injection at random.uniform; bounded-progress counters instead of wall-clock"
LEVEL_TEXT = ("Exploration: 2-4 atoms, relaxation/dephasing/depolarizing/effective noise with strong rates, step lengths 0.3..200 ns, 1-30 steps, "
              "thresholds scripted (just below the bound, 1-1e-12 of it, tiny, random) so that jumps happen in the first step, at step boundaries, "
              "several times per step and right after a jump; the automaton checks: steps complete once and in order at their target time; every "
              "progress() stays inside the current step; a jump follows a search of the same step, lies in its final bracket (< 1 ns wide, "
              "ordinates of opposite sign); results are stored once per due time, in order; bounded progress (<= 64 evaluations per search, "
              "monotone time outside a search, run ends with all steps done).")
LEVEL_NOTE = "No bound is put on the number of jumps per step (a fresh threshold may legitimately fall in the same nanosecond again); injected thresholds are never equal to the bound (probability ~2^-53 in reality, and it would trip the finder's own sign assertion)."
RULE = "(noise kind, N, dt, #steps, injection plan); distinct = that tuple + sequence of event kinds; non-trivial = at least one jump happened"
ASSUMPTIONS = ["events at method granularity are sufficient to refute the property (validated with seeded changes, DESIGN.md)",
               "a run making more than 400 progress() calls per (time step x atom) + 2000 is reported as not terminating (bounded liveness)"]
REQUIRED = ["runs", "events", "jumps_observed", "searches_observed", "steps_completed", "runs_with_jump_in_first_step", "runs_with_several_jumps_in_a_step"]
SHARD_TIMEOUT = {"quick": 1700, "thorough": 5 * 3600}
PLANS = ["real", "just-below", "barely-below", "tiny", "alternate", "burst"]
NOISES = ["relaxation", "dephasing", "depolarizing", "eff", "relaxation+dephasing"]


def gen_cases(tier, seed):
    rng = np.random.default_rng(seed)
    n_cases = 60 if tier == "quick" else 900
    return [{"seed": int(rng.integers(1 << 30)), "plan": PLANS[i % len(PLANS)], "noise": NOISES[(i // len(PLANS)) % len(NOISES)],
             "n": int(rng.integers(2, 5)), "dt": float(rng.choice([0.3, 0.7, 1, 2.5, 10, 10, 33, 100, 200])), "steps": int(rng.integers(1, 31))} for i in range(n_cases)]


class Violation(Exception):
    pass


class Automaton:
    def __init__(self, target_times, n_atoms):
        self.tt = list(target_times)
        self.nsteps = len(self.tt) - 1
        self.idx = 0            # number of completed steps
        self.search = None      # current search record
        self.searches_in_step = 0
        self.last_jump_t = None
        self.jumps_in_step = 0
        self.max_jumps_in_step = 0
        self.events = 0
        self.kinds = []
        self.viol = []
        self.progress_calls = 0
        self.cap = 400 * self.nsteps * n_atoms + 2000
        self.last_pos = (0, 0.0)
        self.fill_times = []
        self.jump_first_step = False
        self.n_jumps = 0
        self.n_searches = 0

    def bad(self, key, msg):
        self.viol.append((key, msg))

    def ev(self, kind, **kw):
        self.events += 1
        if len(self.kinds) < 4000:
            self.kinds.append(kind[0])
        getattr(self, "on_" + kind)(**kw)

    # ---- events
    def on_progress(self, idx, t_cur, t_target, rf_active):
        self.progress_calls += 1
        if self.progress_calls > self.cap:
            raise Violation("no-termination-within-progress-bound")
        if idx != self.idx:
            self.bad("progress-with-wrong-step-index", f"progress sees step {idx}, automaton has {self.idx} completed")
        if self.idx < self.nsteps:
            lo, hi = self.tt[self.idx], self.tt[self.idx + 1]
            eps = 1e-9 * max(1.0, hi)
            if not (lo - eps <= t_cur <= hi + eps) or not (lo - eps <= t_target <= hi + eps):
                self.bad("progress-outside-current-step", f"step {self.idx} [{lo},{hi}]: current_time {t_cur!r} target_time {t_target!r}")
            if t_target < t_cur - eps and not rf_active:
                self.bad("time-goes-backwards-outside-a-search", f"step {self.idx}: current_time {t_cur!r} target_time {t_target!r}")
        if not rf_active:
            pos = (idx, t_cur)
            if pos < (self.last_pos[0], self.last_pos[1] - 1e-9):
                self.bad("position-decreases-outside-a-search", f"{pos} after {self.last_pos}")
            self.last_pos = pos

    def on_rf_start(self, a, b, fa, fb):
        self.n_searches += 1
        self.searches_in_step += 1
        lo, hi = self.tt[self.idx], self.tt[min(self.idx + 1, self.nsteps)]
        eps = 1e-9 * max(1.0, hi)
        if not (lo - eps <= a <= b <= hi + eps):
            self.bad("search-bracket-outside-current-step", f"step {self.idx} [{lo},{hi}]: bracket [{a!r},{b!r}]")
        if not (fa > 0 > fb):
            self.bad("search-started-without-a-crossing", f"gap at bracket ends {fa!r}, {fb!r} (expected positive then negative)")
        if self.last_jump_t is not None and a < self.last_jump_t - eps:
            self.bad("search-starts-before-the-previous-jump", f"bracket starts at {a!r}, previous jump at {self.last_jump_t!r}")
        self.search = {"a0": a, "b0": b, "evals": 0, "rf": None}

    def on_rf_eval(self, x, f, rf):
        s = self.search
        if s is None:
            self.bad("ordinate-provided-without-a-search", f"x={x!r}")
            return
        s["evals"] += 1
        s["rf"] = rf
        if s["evals"] > 64:
            raise Violation("jump-search-exceeds-64-evaluations")
        if not (min(s["a0"], s["b0"]) - 1e-9 <= x <= max(s["a0"], s["b0"]) + 1e-9):
            self.bad("search-evaluates-outside-its-bracket", f"x={x!r} bracket [{s['a0']!r},{s['b0']!r}]")

    def on_jump(self, t):
        self.n_jumps += 1
        self.jumps_in_step += 1
        self.max_jumps_in_step = max(self.max_jumps_in_step, self.jumps_in_step)
        if self.idx == 0:
            self.jump_first_step = True
        s = self.search
        if s is None:
            self.bad("jump-without-a-preceding-search-in-this-step", f"t={t!r} step {self.idx}")
        else:
            rf = s["rf"]
            if rf is None:
                self.bad("jump-before-any-evaluation-of-the-search", f"t={t!r}")
            else:
                lo, hi = min(rf.a, rf.b), max(rf.a, rf.b)
                if not (hi - lo < 1.0):
                    self.bad("jump-applied-before-the-crossing-is-bracketed-to-1ns", f"t={t!r}: bracket [{lo!r},{hi!r}] is {hi-lo:.3f} ns wide after {s['evals']} evaluations")
                if not (lo - 1e-9 <= t <= hi + 1e-9):
                    self.bad("jump-time-outside-the-final-bracket", f"t={t!r} bracket [{lo!r},{hi!r}]")
                if not ((rf.fa < 0) != (rf.fb < 0)):
                    self.bad("final-bracket-has-no-sign-change", f"fa={rf.fa!r} fb={rf.fb!r}")
        lo, hi = self.tt[self.idx], self.tt[min(self.idx + 1, self.nsteps)]
        if not (lo - 1e-9 <= t <= hi + 1e-9):
            self.bad("jump-outside-current-step", f"t={t!r} step [{lo},{hi}]")
        if self.last_jump_t is not None and t < self.last_jump_t - 1e-9:
            self.bad("jump-times-decrease-within-a-step", f"{t!r} after {self.last_jump_t!r}")
        self.last_jump_t = t
        self.search = None

    def on_step_done(self, idx_after, t):
        if idx_after != self.idx + 1:
            self.bad("step-completed-out-of-order-or-twice", f"completed index {idx_after}, expected {self.idx + 1}")
        if idx_after <= self.nsteps and abs(t - self.tt[min(idx_after, self.nsteps)]) > 1e-9 * max(1.0, t):
            self.bad("step-completed-at-wrong-time", f"step {idx_after} completed at {t!r}, target {self.tt[min(idx_after, self.nsteps)]!r}")
        if self.search is not None:
            self.bad("step-completed-during-an-unfinished-search", f"step {idx_after}")
        self.idx = idx_after
        self.search = None
        self.searches_in_step = 0
        self.jumps_in_step = 0
        self.last_jump_t = None

    def on_fill(self, t, stored):
        if stored:
            if self.fill_times and t <= self.fill_times[-1] + 1e-12:
                self.bad("results-stored-twice-or-out-of-order", f"t={t!r} after {self.fill_times[-1]!r}")
            if not any(abs(t - x) <= 1e-9 * max(1.0, x) for x in self.tt):
                self.bad("results-stored-at-a-time-that-is-not-a-step-boundary", f"t={t!r}")
            self.fill_times.append(t)

    def finish(self):
        if self.idx != self.nsteps:
            self.bad("run-ended-before-all-steps-completed", f"{self.idx}/{self.nsteps}")


class Recorder:
    def __init__(self, plan, rng):
        self.plan, self.rng = plan, rng
        self.auto = None
        self.calls = 0

    def install(self):
        import random as _random

        import emu_mps.mps_backend_impl as mpi
        from emu_base.math.brents_root_finding import BrentsRootFinder

        self.mpi = mpi
        N = mpi.NoisyMPSBackendImpl
        self._orig = {k: N.__dict__.get(k) or getattr(N, k) for k in ("sweep_complete", "timestep_complete", "do_random_quantum_jump", "init")}
        self._orig_base = {k: getattr(mpi.MPSBackendImpl, k) for k in ("progress", "fill_results")}
        self._orig_names = {"BrentsRootFinder": mpi.BrentsRootFinder, "random": mpi.random}
        rec = self

        def init(impl):
            rec.auto = Automaton(impl.target_times, impl.qubit_count)
            return rec._orig["init"](impl)

        def progress(impl):
            if rec.auto is not None and isinstance(impl, N):
                rec.auto.ev("progress", idx=impl._timestep_index, t_cur=impl.current_time, t_target=impl.target_time, rf_active=impl.root_finder is not None)
            return rec._orig_base["progress"](impl)

        def do_jump(impl):
            rec.auto.ev("jump", t=impl.current_time)
            return rec._orig["do_random_quantum_jump"](impl)

        def timestep_complete(impl):
            r = rec._orig["timestep_complete"](impl)
            rec.auto.ev("step_done", idx_after=impl._timestep_index, t=impl.current_time)
            return r

        def fill_results(impl):
            if rec.auto is None or not isinstance(impl, N):
                return rec._orig_base["fill_results"](impl)
            before = sum(len(v) for v in impl.results._results.values())
            r = rec._orig_base["fill_results"](impl)
            after = sum(len(v) for v in impl.results._results.values())
            rec.auto.ev("fill", t=impl.current_time, stored=after - before)
            return r

        class RecordingBrents(BrentsRootFinder):
            def __init__(self, *, start, end, f_start, f_end, epsilon=1e-6):
                rec.auto.ev("rf_start", a=start, b=end, fa=f_start, fb=f_end)
                super().__init__(start=start, end=end, f_start=f_start, f_end=f_end, epsilon=epsilon)

            def provide_ordinate(self, abscissa, ordinate):
                super().provide_ordinate(abscissa, ordinate)
                rec.auto.ev("rf_eval", x=abscissa, f=ordinate, rf=self)

        class RandomProxy:
            def __getattr__(self, name):
                return getattr(_random, name)

            @staticmethod
            def uniform(lo, hi):
                rec.calls += 1
                p = rec.plan
                k = rec.calls
                if p == "real" or hi <= 0:
                    return _random.uniform(lo, hi)
                # forcing thresholds are finitely many per run: a threshold just below the bound makes the next jump (almost) immediate,
                # an endless supply of them would be an endless supply of jumps - not a run the program can have
                if p == "just-below" and k <= 3:
                    return hi * (1 - 1e-4)
                if p == "barely-below" and k <= 2:
                    return hi * (1 - 1e-12)
                if p == "tiny":
                    return hi * 1e-9 if k % 5 else _random.uniform(lo, hi)
                if p == "alternate" and k <= 6 and k % 2:
                    return hi * (1 - 1e-4)
                if p == "burst" and k <= 4:
                    return hi * (1 - 1e-5)
                return _random.uniform(lo, hi)

        N.init = init
        mpi.MPSBackendImpl.progress = progress
        N.do_random_quantum_jump = do_jump
        N.timestep_complete = timestep_complete
        mpi.MPSBackendImpl.fill_results = fill_results
        mpi.BrentsRootFinder = RecordingBrents
        mpi.random = RandomProxy()
        return self

    def remove(self):
        mpi = self.mpi
        N = mpi.NoisyMPSBackendImpl
        N.init = self._orig["init"]
        N.do_random_quantum_jump = self._orig["do_random_quantum_jump"]
        N.timestep_complete = self._orig["timestep_complete"]
        mpi.MPSBackendImpl.progress = self._orig_base["progress"]
        mpi.MPSBackendImpl.fill_results = self._orig_base["fill_results"]
        mpi.BrentsRootFinder = self._orig_names["BrentsRootFinder"]
        mpi.random = self._orig_names["random"]


def run_case(case):
    import random

    import torch
    import emu_mps
    from pulser import NoiseModel

    rng = np.random.default_rng(case["seed"])
    n, dt, steps = case["n"], case["dt"], case["steps"]
    dur = max(1, int(round(dt * steps)))
    if dt < 1:
        dur = max(2, int(math.ceil(dt * steps)))
    kind = case["noise"]
    rate = float(10 ** rng.uniform(-0.3, 1.3)) * (50.0 / max(dur, 10)) ** 0.5  # strong enough that a jump per trajectory is typical
    kw = {}
    if "relaxation" in kind:
        kw["relaxation_rate"] = rate
    if "dephasing" in kind:
        kw["dephasing_rate"] = rate
    if kind == "depolarizing":
        kw["depolarizing_rate"] = rate
    if kind == "eff":
        kw["eff_noise_rates"] = [rate, rate / 2]
        kw["eff_noise_opers"] = [np.array([[0, 1.0], [0, 0]]), rng.normal(size=(2, 2)) + 1j * rng.normal(size=(2, 2))]
    pts = seqgen.positions(rng, n, "line", 7.5, 0.3)
    spec = {"basis": "ising", "device": "mock", "atoms": [[f"q{i}", pts[i][0], pts[i][1]] for i in range(n)], "has_global": True,
            "ops": [{"op": "pulse", "ch": "g", "amp": ["const", dur, float(rng.uniform(3, 12))], "det": ["const", dur, float(rng.uniform(-5, 5))], "phase": 0.0}]}
    seq = seqgen.build(spec)
    times = sorted({1.0} | {float(x) for x in rng.choice([0.0, 0.25, 0.5, 0.75], size=2)})
    cfg = emu_mps.MPSConfig(dt=dt, noise_model=NoiseModel(**kw), n_trajectories=1, observables=[emu_mps.Occupation(evaluation_times=times), emu_mps.BitStrings(num_shots=5)],
                            log_level=e2e.quiet(), num_gpus_to_use=0, optimize_qubit_ordering=False)
    cnt = {k: 0 for k in REQUIRED}
    viol = []
    fp = f"{kind}:n{n}:dt{dt:g}:steps{steps}:{case['plan']}"
    rec = Recorder(case["plan"], rng).install()
    random.seed(case["seed"])
    torch.manual_seed(case["seed"])
    outcome = "finished"
    try:
        res = emu_mps.MPSBackend(seq, config=cfg).run()
    except Violation as v:
        outcome = str(v)
        viol.append({"key": f"C18:{v}", "msg": f"{fp}: after {rec.auto.events} events, {rec.auto.idx}/{rec.auto.nsteps} steps, {rec.auto.n_jumps} jumps"})
    except AssertionError as e:
        import traceback

        fr = [f"{f.filename.split('/')[-1]}:{f.name}" for f in traceback.extract_tb(e.__traceback__) if "/emu_" in f.filename]
        outcome = "assertion"
        viol.append({"key": f"C18:solver-assertion-fails:{fr[-1] if fr else '?'}", "msg": f"{fp}: {e}"[:300]})
    except Exception as e:
        import traceback

        fr = [f"{f.filename.split('/')[-1]}:{f.name}" for f in traceback.extract_tb(e.__traceback__) if "/emu_" in f.filename]
        outcome = "error"
        viol.append({"key": f"C18:run-raises:{type(e).__name__}:{fr[-1] if fr else '?'}", "msg": f"{fp}: {e}"[:300]})
    finally:
        rec.remove()
    a = rec.auto
    cnt["runs"] += 1
    if a is None:
        return {"fp": fp, "nontrivial": False, "violations": viol, "counters": cnt, "max": {}, "sample": None, "harness_error": "noisy solver was not used (no automaton created)"}
    if outcome == "finished":
        a.finish()
        due = [t for t in times]
        got = [float(t) for t in res.get_result_times("occupation")]
        if len(got) != len(due) or any(abs(x - y) > 1e-9 for x, y in zip(got, sorted(due))):
            a.bad("observable-not-recorded-once-at-each-due-time", f"stored {got} requested {sorted(due)}")
    for key, msg in a.viol[:4]:
        viol.append({"key": "C18:" + key, "msg": f"{fp}: {msg}"})
    cnt["events"] += a.events
    cnt["jumps_observed"] += a.n_jumps
    cnt["searches_observed"] += a.n_searches
    cnt["steps_completed"] += a.idx
    cnt["runs_with_jump_in_first_step"] += int(a.jump_first_step)
    cnt["runs_with_several_jumps_in_a_step"] += int(a.max_jumps_in_step >= 2)
    path = "".join(a.kinds)
    return {"fp": fp + f":{hash(path) & 0xffffff:x}", "nontrivial": a.n_jumps > 0, "violations": viol[:5], "counters": cnt,
            "max": {"events_in_a_run": float(a.events), "jumps_in_a_step": float(a.max_jumps_in_step), "progress_calls_over_cap": a.progress_calls / a.cap},
            "sample": {"case": fp, "steps": a.nsteps, "jumps": a.n_jumps, "searches": a.n_searches, "event_kinds_head": path[:120]} if case["idx"] % 10 == 0 else None}
