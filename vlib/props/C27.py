"""C27 — a loadable autosave always survives a crash during autosaving.

Fault enumeration: with a fake clock every `progress()` autosaves; the names `open`, `os`, `pickle` inside
emu_mps.mps_backend_impl are replaced by recording proxies (vlib/crash.py) that kill the run (BaseException)
before / after every file-system event of every autosave after the first, or cut `pickle.dump` after half of its
bytes.  After each crash the directory is inspected and `MPSBackend.resume(<advertised name>)` must load and
finish; crashes are chained (the resumed process is crashed again during ITS autosaves, then resumed once more).
"""
import glob
import os
import pickle

import numpy as np

from vlib import crash, e2e

ID = "C27"
LEVEL = "fault_enumeration"
ENGINE = "crash-enumeration"
TECHNIQUE = "fault injection at every file-system event of save_simulation (source-free interposition of open/os/pickle in the module namespace, fake clock), chained over resumed processes; oracle = the advertised file loads and resume() finishes"
LEVEL_TEXT = ("Fault enumeration: every event (open of the temporary file, dump incl. a half-written dump, replace/rename/remove) x {before, after} of the "
              "2nd and 3rd autosave of a run, and the same set again in the process resumed from the survivor (depth-2 chains, exhaustive in the thorough "
              "tier, sampled in quick); TDVP, DMRG and noisy solvers, reordering on/off. After every crash a complete snapshot must exist under "
              "the advertised name and resuming from it must complete.")
LEVEL_NOTE = "Crashes are simulated in-process by a BaseException raised from the interposed call (files closed as the OS would on process death; a half-written dump leaves half of the bytes on disk)."
RULE = "(solver kind, reordering, first crash point, second crash point); distinct = that tuple; non-trivial = the crash happened after the first autosave completed"
ASSUMPTIONS = ["process death is modelled at the granularity of the file-system calls save_simulation makes (plus one torn write inside pickle.dump)",
               "the advertised name is <cwd>/<autosave_prefix><uuid>.dat as logged by the backend"]
REQUIRED = ["crash_points_exercised", "resumes_after_crash", "chained_crashes", "event_kinds_seen"]
SHARD_TIMEOUT = {"quick": 1700, "thorough": 5 * 3600}
KINDS = ["tdvp", "dmrg", "noisy"]


def gen_cases(tier, seed):
    rng = np.random.default_rng(seed)
    cases = []
    for kind in KINDS:
        for reorder in (False, True):
            cases.append({"kind": kind, "reorder": reorder, "seed": int(rng.integers(1 << 30)), "chains": 30 if tier == "quick" else -1, "part": 0, "parts": 1})
    if tier == "thorough":  # split the exhaustive chain set of each configuration over 4 shards
        cases = [dict(c, part=p, parts=4) for c in cases for p in range(4)]
    return cases


def _sequence(kind, rng):
    import pulser

    n = 3
    reg = pulser.Register({"q0": (0.0, 0.0), "q1": (14.0, 0.0), "q2": (7.0, 0.5)})
    seq = pulser.Sequence(reg, pulser.devices.MockDevice)
    seq.declare_channel("g", "rydberg_global")
    seq.add(pulser.Pulse.ConstantPulse(40, float(rng.uniform(4, 8)), float(rng.uniform(-3, 3)), 0.0), "g")
    return seq


def _config(kind, reorder):
    import emu_mps
    from emu_mps.solver import Solver
    from pulser import NoiseModel

    kw = dict(dt=10.0, autosave_dt=10.5, observables=[emu_mps.Occupation(evaluation_times=[0.5, 1.0]), emu_mps.BitStrings(num_shots=5)], log_level=e2e.quiet(),
              num_gpus_to_use=0, optimize_qubit_ordering=reorder, autosave_prefix="c27_")
    if kind == "dmrg":
        kw["solver"] = Solver.DMRG
    if kind == "noisy":
        kw["noise_model"] = NoiseModel(relaxation_rate=2.0)
        kw["n_trajectories"] = 1
    return emu_mps.MPSConfig(**kw)


def _advertised(d):
    names = [f for f in os.listdir(d) if f.startswith("c27_")]
    if not names:
        return None, []
    stem = names[0].split(".")[0]
    return os.path.join(d, stem + ".dat"), sorted(names)


def _attempt(fn, crash_at):
    """run fn() under an interposer; returns (outcome, interposer) with outcome 'finished' | 'crashed' | exception"""
    ip = crash.FsInterposer(crash_at).install()
    try:
        r = fn()
        return ("finished", r), ip
    except crash.Crash:
        return ("crashed", None), ip
    except Exception as e:  # noqa
        return ("error", e), ip
    finally:
        ip.remove()


def run_case(case):
    import random

    import torch
    import emu_mps

    rng = np.random.default_rng(case["seed"])
    kind, reorder = case["kind"], case["reorder"]
    cnt = {k: 0 for k in REQUIRED}
    viol, fps = [], []
    kinds_seen = set()
    seq = _sequence(kind, rng)

    def fresh_run():
        random.seed(case["seed"])
        torch.manual_seed(case["seed"])
        return emu_mps.MPSBackend(seq, config=_config(kind, reorder)).run()

    # 1. dry run: learn the events of each autosave
    with crash.workdir() as d, crash.fake_clock():
        (out, res0), ip0 = _attempt(fresh_run, None)
        leftover = crash.listing(d)
    if out != "finished":
        return {"fp": f"{kind}:{reorder}", "nontrivial": False, "violations": [{"key": f"C27:uninterrupted-run-fails:{type(res0).__name__}", "msg": f"{res0}"[:300]}],
                "counters": cnt, "max": {}, "sample": None}
    if leftover:
        viol.append({"key": "C27:autosave-files-left-after-a-finished-run", "msg": f"{kind}: {leftover}"})
    nsaves = len(ip0.saves)
    if nsaves < 3:
        return {"fp": f"{kind}:{reorder}", "nontrivial": False, "violations": [], "counters": cnt, "max": {}, "sample": None,
                "harness_error": f"only {nsaves} autosaves happened: the fake clock did not trigger them"}
    for ev in ip0.saves:
        kinds_seen.update(k for k, _ in ev)
    cnt["event_kinds_seen"] = len(kinds_seen)

    def points(saves, which):
        pts = []
        for s in which:
            if s >= len(saves):
                continue
            for e, (k, _a) in enumerate(saves[s]):
                pts.append((s, e, "before"))
                pts.append((s, e, "after"))
                if k == "dump":
                    pts.append((s, e, "half"))
        return pts

    first_pts = points(ip0.saves, [1, 2])
    chains = [(p, None) for p in first_pts]
    # second-level crash points are relative to the resumed process: its own autosaves 0 and 1
    second = []
    for p in first_pts:
        second += [(p, (s, e, w)) for (s, e, w) in points(ip0.saves, [0, 1])]
    if case["chains"] > 0 and len(second) > case["chains"]:
        idx = rng.choice(len(second), size=case["chains"], replace=False)
        second = [second[int(i)] for i in sorted(idx)]
    chains += second
    chains = chains[case["part"]::case["parts"]]
    sample = None
    for p1, p2 in chains:
        desc = f"{kind} reorder={reorder} crash1={p1} ({ip0.saves[p1[0]][p1[1]][0]}) crash2={p2}"
        with crash.workdir() as d, crash.fake_clock():
            (out, r), ip = _attempt(fresh_run, p1)
            if out != "crashed":
                viol.append({"key": "C27:harness-crash-point-not-reached", "msg": f"{desc}: {out}"})
                continue
            cnt["crash_points_exercised"] += 1
            adv, names = _advertised(d)
            state = {"after_crash1": names}
            stage = 1
            final = None
            for stage, pt in ((1, p2), (2, None)):
                if adv is None or not os.path.isfile(adv):
                    viol.append({"key": f"C27:no-file-under-advertised-name-after-crash:stage{stage}",
                                 "msg": f"{desc}: directory {crash.listing(d)}", "detail": {"events": ip0.saves[p1[0]]}})
                    break
                try:
                    with open(adv, "rb") as fh:
                        pickle.load(fh)
                except Exception as e:
                    viol.append({"key": f"C27:advertised-autosave-not-loadable:stage{stage}:{type(e).__name__}", "msg": f"{desc}: {e}; directory {crash.listing(d)}"[:400]})
                    break
                (out2, r2), ip2 = _attempt(lambda: emu_mps.MPSBackend.resume(adv), pt)
                cnt["resumes_after_crash"] += 1
                if out2 == "finished":
                    final = r2
                    break
                if out2 == "error":
                    viol.append({"key": f"C27:resume-from-advertised-autosave-fails:stage{stage}:{type(r2).__name__}", "msg": f"{desc}: {r2}"[:400]})
                    break
                cnt["chained_crashes"] += 1  # crashed again (as requested): go round once more without a crash
                state["after_crash2"] = crash.listing(d)
                if stage == 2:
                    viol.append({"key": "C27:harness-second-resume-crashed", "msg": desc})
            if final is not None:
                occ = final.get_result("occupation", 1.0)
                if len(e2e.to_np(occ)) != 3 or sum(final.get_result("bitstrings", 1.0).values()) != 5:
                    viol.append({"key": "C27:resumed-run-returns-malformed-results", "msg": desc})
                rest = crash.listing(d)
                stale = [f for f in rest if f.endswith(".dat")]
                if stale:
                    viol.append({"key": "C27:autosave-file-not-removed-after-resumed-run", "msg": f"{desc}: {rest}"})
            fps.append(f"{kind}:{reorder}:{p1}:{p2}")
            if sample is None and p2 is not None:
                sample = {"kind": kind, "reorder": reorder, "events_of_one_autosave": [k for k, _ in ip0.saves[1]], "crash1": list(p1), "crash2": list(p2), "directory": state}
    return {"fp": None, "nontrivial": False, "fps": fps, "n_eval": len(chains), "violations": viol[:6], "counters": cnt, "max": {}, "sample": sample}
