"""C09 — the DMRG solver finds the ground state of the final Hamiltonian.

Monitor: boundary recorder on `MPSBackend._run_from_sequence_data` with `solver="dmrg"`; oracle per evaluation time:
dense `eigh` of the Hamiltonian of the step just solved (from the recorded `SequenceData`).  Variational bound
always; energy match on generated gapped instances; returned state normalised and canonical.
"""
import numpy as np

from vlib import e2e, ref, seqgen, tn

ID = "C09"
LEVEL = "exploration"
ENGINE = "e2e-reference"
TECHNIQUE = "boundary recorder on MPSBackend (solver=dmrg) + dense eigh oracle per step; canonical-form invariant on returned states"
LEVEL_TEXT = ("Exploration: noiseless ground-rydberg sequences with constant, ramp-and-hold and slowly varying drives (2-8 atoms, global and "
              "local channels, DMM), dt 5..50, precision 1e-5..1e-8, max_bond_dim unbounded or binding (2-3), evaluation times at every step; reported energy >= exact ground energy "
              "of that step's Hamiltonian, equal to it within 10*energy_tolerance + 100*precision on gapped instances (gap >= 0.5 rad/us, "
              "N <= 6), returned MPS normalised and canonical at its declared centre.")
LEVEL_NOTE = "DMRG's own convergence criterion is an energy difference between sweeps (1e-5): 'matches within the solver's tolerance' is taken as 10x that plus the truncation term."
RULE = "(N, drive style, dt, precision, channels); distinct = structural fingerprint; non-trivial = at least two different step Hamiltonians with Omega>0 and an intermediate evaluation time"
ASSUMPTIONS = ["ground energy from numpy.linalg.eigvalsh of the dense Hamiltonian of the recorded step parameters (midpoint interaction matrix)",
               "a RuntimeError 'did not converge' on a non-gapped instance is a rejection, on a gapped one a violation"]
REQUIRED = ["runs", "energies_checked", "gapped_energy_matches_checked", "states_checked"]
SHARD_TIMEOUT = {"quick": 1700, "thorough": 5 * 3600}
STYLES = ["constant", "ramp-hold", "sweep", "two-plateaus"]


def gen_cases(tier, seed):
    rng = np.random.default_rng(seed)
    n_cases = 40 if tier == "quick" else 600
    return [{"seed": int(rng.integers(1 << 30)), "style": STYLES[i % 4], "n": int(rng.integers(2, 7)) if rng.random() < 0.8 else int(rng.integers(7, 9))}
            for i in range(n_cases)]


def run_case(case):
    from emu_mps import MPSBackend, MPSConfig, Energy, StateResult, Occupation
    from emu_mps.solver import Solver

    rng = np.random.default_rng(case["seed"])
    n = case["n"]
    spec = seqgen.random_spec(rng, n=n, basis="ising", dmin=6.5, spread=0.7, n_pulses=1, wf_kinds=["const"], shuffle_ids=True, phase_mode="zero",
                              local=False, delays=False)
    om = float(rng.uniform(2, 10))
    d0, d1 = float(rng.uniform(-20, -5)), float(rng.uniform(-5, 25))
    style = case["style"]
    T1, T2 = int(rng.choice([100, 200, 300])), int(rng.choice([60, 100, 200]))
    ph = float(rng.choice([0.0, rng.uniform(0, 6.28)]))
    if style == "constant":
        ops = [{"op": "pulse", "ch": "g", "amp": ["const", T1, om], "det": ["const", T1, d1], "phase": ph}]
    elif style == "ramp-hold":
        ops = [{"op": "pulse", "ch": "g", "amp": ["const", T1, om], "det": ["ramp", T1, d0, d1], "phase": ph},
               {"op": "pulse", "ch": "g", "amp": ["const", T2, om], "det": ["const", T2, d1], "phase": ph}]
    elif style == "sweep":
        ops = [{"op": "pulse", "ch": "g", "amp": ["blackman", T1 + T2, om * (T1 + T2) * 1e-3 * 0.42], "det": ["ramp", T1 + T2, d0, d1], "phase": ph}]
    else:
        ops = [{"op": "pulse", "ch": "g", "amp": ["const", T1, om], "det": ["const", T1, d0], "phase": ph},
               {"op": "pulse", "ch": "g", "amp": ["const", T2, om * 0.6], "det": ["const", T2, d1], "phase": ph}]
    spec["ops"] = ops
    if rng.random() < 0.3 and n >= 2:
        ids = [a[0] for a in spec["atoms"]]
        spec["dmm_map"] = {ids[0]: 1.0, ids[-1]: 0.5}
        spec["ops"].insert(1, {"op": "dmm", "wf": ["const", T1, float(-rng.uniform(1, 8))]})
    seq = seqgen.build(spec)
    dt = float(rng.choice([5, 10, 20, 50]))
    prec = float(10.0 ** float(rng.choice([-5, -6, -8])))
    dur = seq.get_duration()
    times = sorted({min(1.0, k * dt / dur) for k in range(0, int(dur // dt) + 1)} | {1.0})
    times = [t for t in times if t > 0]
    cap = int(rng.choice([2, 3])) if (n >= 5 and rng.random() < 0.4) else 1024  # a binding max_bond_dim: only the variational bound, normalisation and canonical form are asserted
    cfg = MPSConfig(dt=dt, precision=prec, solver=Solver.DMRG, observables=[Energy(evaluation_times=times), StateResult(evaluation_times=times), Occupation(evaluation_times=times)],
                    log_level=e2e.quiet(), num_gpus_to_use=0, optimize_qubit_ordering=False, max_bond_dim=cap)
    cnt = {k: 0 for k in REQUIRED}
    cnt["rejected"] = 0
    viol, worst = [], {}
    fp = f"{style}:n{n}:dt{dt:g}:p{prec:.0e}:{'dmm' if spec.get('dmm_map') else ''}:ph{int(ph != 0)}:cap{cap}"
    sample = {"spec": spec, "dt": dt, "precision": prec, "style": style}
    raised = None
    try:
        with e2e.recording(MPSBackend) as rec:
            results = MPSBackend(seq, config=cfg).run()
    except RuntimeError as e:
        raised = e
    except Exception as e:
        cnt["runs"] += 1
        viol.append({"key": f"C09:run-raises:{type(e).__name__}", "msg": f"{fp}: {e}"[:300], "detail": {"spec": spec}})
        return {"fp": fp, "nontrivial": False, "violations": viol, "counters": cnt, "max": worst, "sample": sample}
    cnt["runs"] += 1
    if raised is not None:
        # need the gap class of the instance: rebuild the SequenceData through the adapter
        from emu_base.pulser_adapter import PulserData

        sd = next(iter(PulserData(sequence=seq, config=cfg, dt=dt).get_sequences()))
        snap = e2e.snapshot(sd)
        gaps = []
        for k in range(len(snap["target_times"]) - 1):
            w = np.linalg.eigvalsh(e2e.step_hamiltonian(snap, k, "mid"))
            gaps.append(w[1] - w[0])
        if n <= 6 and min(gaps) >= 0.5 and "did not converge" in str(raised) and cap >= 2 ** (n // 2):  # with a binding max_bond_dim the sweeps may legitimately oscillate
            viol.append({"key": "C09:dmrg-did-not-converge-on-gapped-instance", "msg": f"{fp}: min gap {min(gaps):.3f}: {raised}"[:300]})
        elif "did not converge" in str(raised):
            cnt["rejected"] += 1
        else:
            viol.append({"key": "C09:run-raises:RuntimeError", "msg": f"{fp}: {raised}"[:300]})
        return {"fp": fp, "nontrivial": False, "violations": viol, "counters": cnt, "max": worst, "sample": sample}
    snap, _ = rec[0]
    tt = snap["target_times"]
    distinct = set()
    for t_rel in results.get_result_times("energy"):
        k, off = e2e.time_index(snap, t_rel)
        if off > 1e-6 or k == 0:
            continue
        H = e2e.step_hamiltonian(snap, k - 1, "mid")
        distinct.add(H.tobytes())
        w = np.linalg.eigvalsh(H)
        E0, gap = float(w[0]), float(w[1] - w[0])
        hn = 1.0 + float(max(abs(w[0]), abs(w[-1])))
        E = float(results.get_result("energy", t_rel))
        cnt["energies_checked"] += 1
        worst["below_ground_over_allow"] = max(worst.get("below_ground_over_allow", 0.0), (E0 - E) / (1e-8 * hn))
        if E < E0 - 1e-8 * hn:
            viol.append({"key": "C09:energy-below-exact-ground-energy", "msg": f"{fp}: t={t_rel:.3g} E={E!r} E0={E0!r}"})
        if gap >= 0.5 and n <= 6 and cap >= 2 ** (n // 2):
            cnt["gapped_energy_matches_checked"] += 1
            tol = 10 * 1e-5 + 100 * prec
            worst["gapped_excess_over_tol"] = max(worst.get("gapped_excess_over_tol", 0.0), (E - E0) / tol)
            if E - E0 > tol:
                last = "last-time" if abs(t_rel - 1.0) < 1e-9 else "intermediate-time"
                # mechanism classifier: does the returned MPS keep fewer Schmidt components across some cut than the exact ground state has above 10*precision?
                # (2-site sweeps with truncation cannot build them up when strongly coupled atoms are far apart in the chain: known finding)
                g0 = np.linalg.eigh(H)[1][:, 0].reshape([2] * n)
                bonds = [int(f.shape[2]) for f in results.get_result("state", t_rel).factors[:-1]]
                deficit = None
                for c_ in range(n - 1):
                    sv = np.linalg.svd(g0.reshape(2 ** (c_ + 1), -1), compute_uv=False)
                    need = int((sv > 10 * prec).sum())
                    if bonds[c_] < need:
                        deficit = f"bond {c_}|{c_ + 1} is {bonds[c_]}, the exact ground state has {need} Schmidt values above 10*precision (smallest kept-out {sv[bonds[c_]]:.2e})"
                        break
                key = "C09:energy-above-ground-energy-on-gapped-instance:bond-dimension-below-exact-schmidt-rank" if deficit else f"C09:energy-above-ground-energy-on-gapped-instance:{last}"
                viol.append({"key": key, "msg": f"{fp}: t={t_rel:.3g} (step {k}/{len(tt)-1}) E-E0={E-E0:.3e} tol={tol:.1e} gap={gap:.2f}" + (f"; {deficit}" if deficit else ""), "detail": {"spec": spec}})
        # the returned state: normalised, canonical, and its energy is what was reported
        st = results.get_result("state", t_rel)
        cnt["states_checked"] += 1
        ce = tn.canonical_errors(st)
        v = tn.dense(st)
        nv = float(np.linalg.norm(v))
        if abs(nv - 1) > 1e-8:
            viol.append({"key": "C09:returned-state-not-normalised", "msg": f"{fp}: t={t_rel:.3g} norm {nv!r}"})
        if ce is None or max(ce) > 1e-8:
            viol.append({"key": "C09:returned-state-not-canonical", "msg": f"{fp}: t={t_rel:.3g} centre {st.orthogonality_center} dev {ce}"})
        Ev = float(np.real(np.vdot(v, H @ v))) / nv ** 2
        if abs(Ev - E) > 1e-6 * hn:
            viol.append({"key": "C09:reported-energy-is-not-the-energy-of-the-reported-state", "msg": f"{fp}: t={t_rel:.3g} E={E!r} <psi|H|psi>={Ev!r}"})
    nontrivial = len(distinct) >= 2 and len(results.get_result_times("energy")) >= 2
    return {"fp": fp, "nontrivial": nontrivial or style == "constant", "violations": viol[:6], "counters": cnt, "max": worst, "sample": sample if case["idx"] % 10 == 0 else None}
