"""C20 — PCHIP interpolation is exact at knots, C1 and shape-preserving.

Monitor: contract evaluated on every `PCHIP1D` built by the workload (the real class from
emu_base.math.pchip_torch), oracle = analytic checks on the stored cubic coefficients +
`scipy.interpolate.PchipInterpolator(extrapolate=True)`.
"""
import numpy as np

ID = "C20"
LEVEL = "exploration"
ENGINE = 'unit-contracts'
TECHNIQUE = 'runtime contract on PCHIP1D (analytic checks on stored cubics) + differential oracle scipy PchipInterpolator'
LEVEL_TEXT = 'Exploration: contract (knots, C1, per-interval range and monotonicity, equality with scipy inside and outside the range) evaluated on thousands of generated knot sets incl. flat ends, huge ratios and tiny values.'
LEVEL_NOTE = "Trusts scipy's PchipInterpolator as the definition of standard PCHIP; deviations below 1e-290 absolute are not judged (no relative accuracy in float64 there)."
RULE = (
    "random knot sets: n in 2..500; x uniform (Pulser's integer grid), random non-uniform, geometric "
    "spacing (ratios to 1e6); y from {normal, monotone, flat runs inside and at both ends, steps, sign "
    "changes, huge ratios 1e+-12, denormals, constants, Pulser-like waveforms}; queries inside, at knots and "
    "outside the range. distinct = (x style, y style, n bucket, hash of data); non-trivial = y not constant"
)
ASSUMPTIONS = [
    "scipy.interpolate.PchipInterpolator (scipy 1.18) is the reference for 'standard PCHIP'",
    "float64 knots; tolerances scale with the local data magnitude (1e-9 relative)",
]
REQUIRED = ["knot_checks", "c1_checks", "interval_shape_checks", "scipy_value_checks", "scipy_extrapolation_checks"]
BATCH = 40
# Below ~1e-290 float64 has no relative accuracy left (denormals carry fewer significant bits), so no
# interpolation algorithm - scipy's included - can meet a relative bound there. Deviations below this
# absolute floor are not judged; the "denormal" style therefore only decides finiteness.
ABS_FLOOR = 1e-290

X_STYLES = ["grid", "random", "geometric", "two-scale"]
Y_STYLES = ["normal", "monotone", "flat-inside", "flat-ends", "steps", "signs", "huge", "tiny", "denormal", "const",
            "blackman", "ramp-then-zero", "tiny-slope-end"]


def gen_cases(tier, seed):
    rng = np.random.default_rng(seed)
    reps = 2 if tier == "quick" else 30
    cases = []
    for _ in range(reps):
        for xs in X_STYLES:
            for ys in Y_STYLES:
                cases.append({"xs": xs, "ys": ys, "seed": int(rng.integers(1 << 30)), "count": BATCH})
    return cases


def _make_x(rng, style, n):
    if style == "grid":
        return np.arange(n, dtype=float)
    if style == "random":
        return np.cumsum(rng.uniform(0.05, 2.0, size=n))
    if style == "geometric":
        r = 10 ** rng.uniform(-6, 6) if n > 2 else 1.0
        h = np.geomspace(1.0, r, n - 1) if n > 2 else np.ones(1)
        return np.concatenate([[0.0], np.cumsum(h)])
    h = np.where(rng.random(n - 1) < 0.5, 1.0, 10 ** rng.uniform(-6, 0))
    return np.concatenate([[0.0], np.cumsum(h)]) + rng.uniform(-5, 5)


def _make_y(rng, style, n, x):
    if style == "normal":
        return rng.normal(size=n)
    if style == "monotone":
        return np.cumsum(rng.uniform(0, 1, size=n) * (rng.random(n) > 0.3)) * rng.choice([-1, 1])
    if style == "flat-inside":
        y = rng.normal(size=n)
        if n > 4:
            a = rng.integers(1, n - 2)
            b = rng.integers(a + 1, n - 1)
            y[a:b + 1] = y[a]
        return y
    if style == "flat-ends":
        y = rng.normal(size=n)
        k = int(rng.integers(2, max(3, n // 2 + 1)))
        which = rng.integers(3)
        if which in (0, 2):
            y[:k] = y[0]
        if which in (1, 2):
            y[-k:] = y[-1]
        return y
    if style == "steps":
        y = np.zeros(n)
        y[rng.integers(1, n):] = rng.choice([1.0, -1.0, 3.5])
        return y
    if style == "signs":
        return rng.normal(size=n) * np.where(np.arange(n) % 2 == 0, 1, -1)
    if style == "huge":
        return rng.normal(size=n) * 10.0 ** rng.integers(-12, 12, size=n)
    if style == "tiny":  # normal numbers whose pairwise products underflow to zero
        return rng.normal(size=n) * 10.0 ** (-rng.uniform(155, 290))
    if style == "denormal":
        return rng.normal(size=n) * 1e-310
    if style == "const":
        return np.full(n, rng.normal())
    if style == "blackman":
        t = (x - x[0]) / max(x[-1] - x[0], 1e-300)
        return rng.uniform(1, 12) * (0.42 - 0.5 * np.cos(2 * np.pi * t) + 0.08 * np.cos(4 * np.pi * t))
    if style == "ramp-then-zero":
        y = np.linspace(rng.uniform(0, 10), rng.uniform(0, 10), n)
        y[rng.integers(1, n):] = 0.0
        return y
    # tiny-slope-end: last / first secant exactly zero or tiny compared to the next one
    y = rng.normal(size=n)
    if n >= 3:
        if rng.random() < 0.5:
            y[1] = y[0] + (0.0 if rng.random() < 0.5 else 1e-14 * rng.normal())
        else:
            y[-2] = y[-1] + (0.0 if rng.random() < 0.5 else 1e-14 * rng.normal())
    return y


def check_instance(x, y, rng):
    """Returns (violations, counters, worst)."""
    import torch
    from emu_base.math.pchip_torch import PCHIP1D
    from scipy.interpolate import PchipInterpolator

    viol = []
    cnt = dict.fromkeys(REQUIRED, 0)
    worst = {}

    def note(name, val):
        worst[name] = max(worst.get(name, 0.0), float(val))

    n = len(x)
    p = PCHIP1D(torch.tensor(x, dtype=torch.float64), torch.tensor(y, dtype=torch.float64))
    co = p._coeffs.numpy()  # (n-1,4)
    h = np.diff(x)
    dy = np.diff(y)
    delta = dy / h

    def flat_end(i):
        return (i == 0 and delta[0] == 0) or (i == n - 2 and delta[-1] == 0)

    with np.errstate(all="ignore"):
        # (1) knots
        got = p(torch.tensor(x, dtype=torch.float64)).numpy()
        cnt["knot_checks"] += n
        tolk = 1e-12 * np.maximum(np.abs(y), np.abs(np.concatenate([[0], dy]))) + ABS_FLOOR
        bad = np.abs(got - y) > tolk
        bad[:-1] &= got[:-1] != y[:-1]
        if bad[:-1].any():
            viol.append({"key": "C20:knot-not-reproduced", "msg": f"knot {int(np.argmax(bad))}: {got[bad][0]!r} != {y[bad][0]!r}"})
        elif bad[-1]:
            viol.append({"key": "C20:end-slope-kept-when-end-secant-is-zero" if delta[-1] == 0 else "C20:last-knot-not-reproduced", "msg": f"{got[-1]!r} != {y[-1]!r}"})
        # (2) C1 from the stored coefficients
        if n > 2:
            d_right = co[:-1, 1] + 2 * co[:-1, 2] * h[:-1] + 3 * co[:-1, 3] * h[:-1] ** 2
            d_next = co[1:, 1]
            sc = np.abs(co[:-1, 1]) + np.abs(d_next) + np.abs(delta[:-1]) + ABS_FLOOR
            r = np.abs(d_right - d_next) / sc
            cnt["c1_checks"] += n - 2
            note("c1_rel_jump", np.nanmax(r))
            if np.nanmax(r) > 1e-9:
                viol.append({"key": "C20:derivative-discontinuous-at-knot", "msg": f"knot {int(np.nanargmax(r)) + 1}: rel jump {np.nanmax(r):.2e}"})
        else:
            cnt["c1_checks"] += 1
        # (3) shape on every interval: extrema of the cubic inside (0,h) and a sample grid
        for i in range(n - 1):
            p0, p1, p2, p3 = co[i]
            ts = list(np.linspace(0, h[i], 9)[1:-1])
            a, b, c = 3 * p3, 2 * p2, p1
            if a != 0:
                disc = b * b - 4 * a * c
                if disc >= 0:
                    for rt in ((-b + np.sqrt(disc)) / (2 * a), (-b - np.sqrt(disc)) / (2 * a)):
                        if 0 < rt < h[i]:
                            ts.append(rt)
            elif b != 0 and 0 < -c / b < h[i]:
                ts.append(-c / b)
            ts = np.array(ts)
            vals = p0 + ts * (p1 + ts * (p2 + ts * p3))
            lo, hi = min(y[i], y[i + 1]), max(y[i], y[i + 1])
            tol = 1e-9 * max(abs(y[i]), abs(y[i + 1]), abs(dy[i])) + ABS_FLOOR
            exc = max(np.max(vals - hi), np.max(lo - vals))
            cnt["interval_shape_checks"] += 1
            if exc > tol:
                note("overshoot_rel", exc / max(abs(dy[i]), abs(y[i]), 1e-300))
                key = "C20:end-slope-kept-when-end-secant-is-zero" if flat_end(i) else "C20:leaves-data-range-on-interval"
                viol.append({"key": key, "msg": f"interval {i}/{n - 1}: excursion {exc:.3e} beyond [{lo!r},{hi!r}]"})
                break
            # monotone: samples ordered like the data
            if dy[i] != 0:
                sv = np.sort(ts)
                vv = p0 + sv * (p1 + sv * (p2 + sv * p3))
                dv = np.diff(np.concatenate([[y[i]], vv, [y[i + 1]]])) * np.sign(dy[i])
                if np.min(dv) < -tol:
                    viol.append({"key": "C20:not-monotone-on-interval", "msg": f"interval {i}: step {np.min(dv):.3e}"})
                    break
        # (4) scipy
        sp = PchipInterpolator(x, y, extrapolate=True)
        # derivatives at knots
        d_emu = np.concatenate([co[:, 1], [co[-1, 1] + 2 * co[-1, 2] * h[-1] + 3 * co[-1, 3] * h[-1] ** 2]])
        d_sp = sp.derivative()(x)
        dsc = np.abs(np.concatenate([[delta[0]], np.maximum(np.abs(delta[:-1]), np.abs(delta[1:])) if n > 2 else [], [delta[-1]]])) + 1e-300
        # inside
        q = rng.uniform(x[0], x[-1], size=min(4 * n, 400))
        iv = np.clip(np.searchsorted(x, q, side="right") - 1, 0, n - 2)
        want = sp(q)
        have = p(torch.tensor(q, dtype=torch.float64)).numpy()
        loc = np.maximum(np.maximum(np.abs(y[iv]), np.abs(y[iv + 1])), np.abs(dy[iv])) + ABS_FLOOR
        rel = np.abs(have - want) / loc
        cnt["scipy_value_checks"] += len(q)
        note("scipy_rel_diff_inside", np.nanmax(rel))
        if np.nanmax(rel) > 1e-9:
            k = int(np.nanargmax(rel))
            key = "C20:end-slope-kept-when-end-secant-is-zero" if flat_end(iv[k]) else (
                "C20:differs-from-scipy:end-interval" if iv[k] in (0, n - 2) else "C20:differs-from-scipy:interior")
            viol.append({"key": key, "msg": f"x={q[k]!r} interval {iv[k]}/{n - 1}: emu {have[k]!r} scipy {want[k]!r}"})
        # outside (extrapolation from the end cubics); moderate distance so values stay comparable
        span = x[-1] - x[0]
        qo = np.concatenate([x[0] - rng.uniform(0, 1, 3) * min(span, h[0] * 2), x[-1] + rng.uniform(0, 1, 3) * min(span, h[-1] * 2)])
        want = sp(qo)
        have = p(torch.tensor(qo, dtype=torch.float64)).numpy()
        io = np.array([0, 0, 0, n - 2, n - 2, n - 2])
        loc = np.maximum(np.maximum(np.abs(y[io]), np.abs(y[io + 1])), np.abs(dy[io])) + np.abs(want) + ABS_FLOOR
        rel = np.abs(have - want) / loc
        cnt["scipy_extrapolation_checks"] += len(qo)
        note("scipy_rel_diff_outside", np.nanmax(rel))
        if np.nanmax(rel) > 1e-8:
            k = int(np.nanargmax(rel))
            key = "C20:end-slope-kept-when-end-secant-is-zero" if flat_end(io[k]) else "C20:extrapolation-differs-from-scipy"
            viol.append({"key": key, "msg": f"x={qo[k]!r}: emu {have[k]!r} scipy {want[k]!r}"})
        if not np.all(np.isfinite(co)):
            viol.append({"key": "C20:non-finite-coefficients", "msg": "nan/inf in stored cubic coefficients"})
    return viol, cnt, worst


def run_case(case):
    rng = np.random.default_rng(case["seed"])
    viol, fps = [], []
    cnt = dict.fromkeys(REQUIRED, 0)
    worst = {}
    sample = None
    for k in range(case["count"]):
        u = rng.random()
        n = 2 if u < 0.04 else 3 if u < 0.12 else int(rng.integers(4, 12)) if u < 0.5 else int(rng.integers(12, 80)) if u < 0.93 else int(rng.integers(80, 501))
        x = _make_x(rng, case["xs"], n)
        y = _make_y(rng, case["ys"], n, x)
        if not np.all(np.diff(x) > 0):
            continue
        v, c, w = check_instance(x, y, rng)
        for kk in c:
            cnt[kk] += c[kk]
        for kk, vv in w.items():
            worst[kk] = max(worst.get(kk, 0.0), vv)
        for one in v:
            one["detail"] = {"x": x.tolist()[:12], "y": y.tolist()[:12], "n": n}
        viol.extend(v)
        if np.ptp(y) > 0:
            fps.append(f"{case['xs']}:{case['ys']}:{n}:{hash(y.tobytes()) & 0xffffff:x}")
        if sample is None and n <= 6:
            sample = {"xs": case["xs"], "ys": case["ys"], "x": x.tolist(), "y": y.tolist()}
    # keep one violation per mechanism
    seen, out = set(), []
    for v in viol:
        if v["key"] not in seen:
            seen.add(v["key"])
            out.append(v)
    return {"fp": None, "nontrivial": False, "fps": fps, "n_eval": case["count"], "violations": out,
            "counters": cnt, "max": worst, "sample": sample if case["idx"] % 12 == 0 else None}
