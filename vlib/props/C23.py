"""C23 — interactions follow the register, cutoff, custom matrix and SLM schedule.

Monitor: contract on `SequenceData.interaction_matrix(t)` (the callable the solvers query) for the real
`PulserData` of generated sequences, against an independent computation from the register geometry / device
constants or the user matrix; query times of both backends are recorded by wrapping the callable's class.
"""
import numpy as np

from vlib import adapter, seqgen

ID = "C23"
LEVEL = "exploration"
ENGINE = "adapter-oracle"
TECHNIQUE = "runtime contract on SequenceData.interaction_matrix(t) vs register geometry/device constants/user matrix; recorded solver query times"
LEVEL_TEXT = ("Exploration: generated registers (1-8 atoms), ising and XY (random magnetic field), user matrices (2-D and stacked), cutoffs "
              "(incl. exactly equal to an entry), SLM masks with various end times; the callable is queried at 0, eps, end-eps, end, end+eps, "
              "mid and final times: symmetric, zero diagonal, source, cutoff (bit-identical survivors), masked rows/columns before the SLM "
              "end and the full matrix from it on. Query times of real emu-sv / emu-mps runs must lie inside the sequence.")
LEVEL_NOTE = "XY: only the C3 exchange matrix (index 0 of pulser-core's stacked tensor) is judged; see DESIGN 0.1."
RULE = ("(basis, N, user matrix form, cutoff class, SLM yes/no); distinct = that + hash; non-trivial = N>=2 and (cutoff removes some but "
        "not all entries, or an SLM mask is present, or a user matrix is given)")
ASSUMPTIONS = ["C6/r^6 and C3(1-3cos^2)/r^3 with pulser-core's device coefficients define the register interactions",
               "pulser-core rounds pair distances to 1e-6 um: relative tolerance k*1.1e-6/r (k=6 ising, 3 XY) against the geometric formula; survivors of cutoff/SLM masking compared bit-for-bit with the un-cut matrix"]
REQUIRED = ["matrices_checked", "query_points_checked", "slm_cases", "cutoff_cases", "user_matrix_cases", "solver_query_times_checked"]
BATCH = 10


def gen_cases(tier, seed):
    rng = np.random.default_rng(seed)
    reps = 10 if tier == "quick" else 150
    return [{"seed": int(rng.integers(1 << 30)), "count": BATCH, "basis": "xy" if i % 3 == 2 else "ising"} for i in range(reps)]


def run_case(case):
    import torch
    from pulser.backend import Occupation
    from emu_base.pulser_adapter import PulserData
    import emu_base.pulser_adapter as pa
    from emu_sv import SVBackend, SVConfig
    from emu_mps import MPSBackend, MPSConfig
    from vlib import e2e

    rng = np.random.default_rng(case["seed"])
    cnt = {k: 0 for k in REQUIRED}
    cnt["rejected"] = 0
    viol, fps = [], []
    sample = None
    basis = case["basis"]
    for it in range(case["count"]):
        n = int(rng.integers(1, 9)) if basis == "ising" else int(rng.integers(2, 7))
        slm = bool(rng.random() < 0.5 and n >= 2)
        spec = seqgen.random_spec(rng, n=n, basis=basis, dmin=float(rng.uniform(4.5, 9)), slm=slm, max_dur=80, min_dur=8, n_pulses=int(rng.integers(1, 4)),
                                  wf_kinds=["const", "ramp"], shuffle_ids=bool(rng.random() < 0.5), local=bool(basis == "ising" and rng.random() < 0.2),
                                  lead_delay=int(rng.choice([0, 0, 16, 40])))
        if basis == "xy" and spec.get("mag") is None and rng.random() < 0.5:
            spec["mag"] = [float(x) for x in rng.uniform(-3, 3, size=3)]
        seq = seqgen.build(spec)
        kind = "rydberg" if basis == "ising" else "xy"
        duration = float(seq.get_duration())
        U_reg = adapter.expected_interactions(seq, kind)
        user = None
        form = "none"
        if rng.random() < 0.4 and n >= 2:
            A = rng.normal(size=(n, n)) * 10 ** rng.uniform(-1, 2)
            user = (A + A.T) / 2
            np.fill_diagonal(user, 0.0)
            form = str(rng.choice(["2d", "stacked"]))
        kw0 = dict(observables=[Occupation()], log_level=e2e.quiet(), dt=10.0, interaction_cutoff=0.0)
        if user is not None:
            kw0["interaction_matrix"] = user if form == "2d" else (user[None] if basis == "ising" else np.stack([user, np.zeros_like(user)]))
        try:
            cfg0 = SVConfig(gpu=False, **kw0) if basis == "ising" else MPSConfig(num_gpus_to_use=0, **kw0)
            sd0 = next(iter(PulserData(sequence=seq, config=cfg0, dt=10.0).get_sequences()))
            U0 = sd0.interaction_matrix(float(seq.get_duration())).detach().numpy().copy()
        except Exception as e:
            if user is not None and form == "stacked":
                cnt["rejected"] += 1  # the stacked form is pulser-internal; a refusal of it is not judged
                continue
            viol.append({"key": f"C23:pulserdata-raises:{type(e).__name__}", "msg": f"{basis} N={n} user={form}: {e}"[:300], "detail": {"spec": spec}})
            cnt["matrices_checked"] += 1
            continue
        # the un-cut, un-masked matrix against its source (user matrix: exact; geometry: Pulser rounds distances to 1e-6 um)
        if user is not None:
            if not np.array_equal(U0, user):
                viol.append({"key": "C23:values-differ-from-user-matrix", "msg": f"{basis} N={n} user={form}: max dev {np.abs(U0 - user).max():.3e}"})
        elif n >= 2:
            pos = np.array([[a[1], a[2]] for a in spec["atoms"]])
            r = np.linalg.norm(pos[:, None] - pos[None], axis=-1) + np.eye(n)
            rtol = (6 if basis == "ising" else 3) * 1.1e-6 / r + 1e-12
            dev = np.abs(U0 - U_reg)
            okm = dev <= rtol * np.abs(U_reg) + 1e-300
            if U0.shape != U_reg.shape or not okm.all():
                i, j = np.argwhere(~okm)[0] if U0.shape == U_reg.shape else (0, 0)
                viol.append({"key": "C23:values-differ-from-register-geometry",
                             "msg": f"{basis} N={n}: entry ({i},{j}) got {U0[i, j]!r} want {U_reg[i, j]!r}", "detail": {"spec": spec}})
        base = U0
        offd = np.abs(base[np.triu_indices(n, 1)]) if n >= 2 else np.array([])
        cut_style = str(rng.choice(["zero", "between", "exact", "all"]))
        if len(offd) == 0 or cut_style == "zero":
            cutoff = 0.0
        elif cut_style == "between":
            s_ = np.sort(offd)
            cutoff = float(0.5 * (s_[len(s_) // 2 - 1] + s_[len(s_) // 2])) if len(s_) > 1 else float(s_[0] * 0.5)
        elif cut_style == "exact":
            cutoff = float(rng.choice(offd))
        else:
            cutoff = float(offd.max() * 2)
        kw = dict(observables=[Occupation()], log_level=e2e.quiet(), dt=10.0, interaction_cutoff=cutoff)
        if user is not None:
            kw["interaction_matrix"] = user if form == "2d" else (user[None] if basis == "ising" else np.stack([user, np.zeros_like(user)]))
        desc = f"{basis} N={n} user={form} cutoff={cut_style}({cutoff:.4g}) slm={spec.get('slm')}"
        try:
            cfg = SVConfig(gpu=False, **kw) if basis == "ising" else MPSConfig(num_gpus_to_use=0, **kw)
            pd = PulserData(sequence=seq, config=cfg, dt=10.0)
            sd = next(iter(pd.get_sequences()))
        except Exception as e:
            if user is not None and form == "stacked":
                cnt["rejected"] += 1  # the stacked form is pulser-internal; a refusal of it is not judged
                continue
            viol.append({"key": f"C23:pulserdata-raises:{type(e).__name__}", "msg": f"{desc}: {e}"[:300], "detail": {"spec": spec}})
            cnt["matrices_checked"] += 1
            continue
        cnt["matrices_checked"] += 1
        if user is not None:
            cnt["user_matrix_cases"] += 1
        ids = [a[0] for a in spec["atoms"]]
        full = base.copy()
        if cutoff > 0:
            cnt["cutoff_cases"] += 1
        full_cut = np.where(np.abs(full) < cutoff, 0.0, full)
        masked = full_cut.copy()
        slm_ids = spec.get("slm") or []
        for j, q in enumerate(ids):
            if q in slm_ids:
                masked[j, :] = 0
                masked[:, j] = 0
        slm_end = float(seq._slm_mask_time[1]) if len(seq._slm_mask_time) > 1 else 0.0
        slm_on = float(seq._slm_mask_time[0]) if len(seq._slm_mask_time) > 1 else 0.0
        if slm_ids:
            cnt["slm_cases"] += 1
        qts = sorted({0.0, 1e-9, max(0.0, slm_end - 1e-9), slm_end, slm_end + 1e-9, 0.5 * duration, duration - 1e-9, duration, max(0.0, slm_end - 0.5), slm_end + 0.5,
                      slm_on, 0.5 * (slm_on + slm_end), max(0.0, slm_end - slm_on), max(0.0, slm_end - slm_on - 1e-9), 0.5 * slm_on})
        for t in qts:
            if t < 0 or t > duration:
                continue
            got = sd.interaction_matrix(t).detach().numpy()
            cnt["query_points_checked"] += 1
            want = masked if t < slm_end else full_cut
            tag = "before-slm-end" if t < slm_end else "at-or-after-slm-end"
            if got.shape != (n, n):
                viol.append({"key": "C23:matrix-shape-differs", "msg": f"{desc}: {got.shape}"})
                break
            if not np.array_equal(got, got.T):
                viol.append({"key": "C23:matrix-not-symmetric", "msg": f"{desc} t={t}"})
            if np.any(np.diag(got) != 0):
                viol.append({"key": "C23:nonzero-diagonal", "msg": f"{desc} t={t}"})
            zero_mismatch = (got == 0) != (want == 0)
            if zero_mismatch.any():
                i, j = np.argwhere(zero_mismatch)[0]
                why = ("slm-mask" if (ids[i] in slm_ids or ids[j] in slm_ids) else "cutoff" if cutoff > 0 else "source")
                viol.append({"key": f"C23:zero-pattern-differs:{why}:{tag}",
                             "msg": f"{desc} t={t!r} slm_end={slm_end}: entry ({i},{j}) got {got[i, j]!r} want {want[i, j]!r}", "detail": {"spec": spec, "cutoff": cutoff}})
                break
            if not np.array_equal(got, want):
                viol.append({"key": f"C23:surviving-entries-changed:{tag}", "msg": f"{desc} t={t!r}: max dev {np.abs(got - want).max():.3e}", "detail": {"spec": spec}})
                break
        nontrivial = n >= 2 and (bool(slm_ids) or user is not None or (cutoff > 0 and 0 < np.count_nonzero(full_cut) < np.count_nonzero(full)))
        if nontrivial:
            fps.append(f"{basis}:{n}:{form}:{cut_style}:{bool(slm_ids)}:{hash(full.tobytes()) & 0xffff:x}")
        # solver query times (first item of each batch, small N)
        if it == 0 and 2 <= n <= 5:
            qtimes = []
            o = pa._InteractionMatrixCallable.__call__

            def rec(self, t, _o=o):
                qtimes.append(float(t))
                return _o(self, t)

            pa._InteractionMatrixCallable.__call__ = rec
            try:
                if basis == "ising":
                    SVBackend(seq, config=SVConfig(gpu=False, **kw)).run()
                MPSBackend(seq, config=MPSConfig(num_gpus_to_use=0, **kw)).run()
                cnt["solver_query_times_checked"] += len(qtimes)
                bad = [t for t in qtimes if not (0.0 <= t <= duration)]
                if bad:
                    viol.append({"key": "C23:solver-queries-interaction-outside-sequence", "msg": f"{desc}: {bad[:3]} duration {duration}"})
            except Exception as e:
                viol.append({"key": f"C23:run-raises:{type(e).__name__}", "msg": f"{desc}: {e}"[:300], "detail": {"spec": spec}})
            finally:
                pa._InteractionMatrixCallable.__call__ = o
        if sample is None:
            sample = {"spec": spec, "cutoff": cutoff, "user_matrix": None if user is None else np.round(user, 4).tolist(), "slm_end": slm_end, "query_times": qts}
    return {"fp": None, "nontrivial": False, "fps": fps, "n_eval": case["count"], "violations": viol[:6], "counters": cnt, "max": {},
            "sample": sample if case["idx"] % 10 == 0 else None}
