"""C14 — observables are recorded exactly at their requested times.

Monitor: on the `Results` returned by real runs (emu-sv, emu-mps TDVP and DMRG): for every observable the list of
stored times must equal its requested set (own times, else the config default), strictly increasing, each once,
nothing else; and every stored value must equal the dense reference at *that* time (boundary recorder + exact
evolution, as in C01/C02; two-atom registers so that emu-mps is exact too).
"""
import numpy as np

from vlib import adapter, e2e, seqgen

ID = "C14"
LEVEL = "exploration"
ENGINE = "e2e-reference"
TECHNIQUE = "runtime contract on Results.get_result_times per observable + value-at-that-time comparison with the dense reference of the recorded SequenceData"
LEVEL_TEXT = ("Exploration: evaluation-time sets (0 and 1, rationals, irrationals, grid-coincident times for dt that is not representable, "
              "inside the last ns, dense) as config default and per observable, incl. per-observable times within 0.5/duration of a default "
              "time or of a grid point, times that equal a default / grid / other observable's time up to a few ulp or a few 1e-12, and 70-131 us sequences with linspace times; dt dividing or not the duration; modulation on/off; emu-sv, emu-mps TDVP and DMRG. Stored times "
              "must be exactly the requested ones, once each, increasing; values must be those of the state at that time.")
LEVEL_NOTE = "Times are matched with 1e-9 absolute tolerance on the relative time. Value comparison uses 1-2 atom registers (emu-mps is then exact)."
RULE = "(backend, dt class, default style, own style, near-collision kind, modulation); distinct = that + hash; non-trivial = an observable has own times different from the default and some time is not a multiple of dt"
ASSUMPTIONS = ["an observable with evaluation_times=None uses config.default_evaluation_times; otherwise only its own times",
               "values are compared with tolerance 3e-5 (observables) / 1.5e-4 (mps state): enough to tell a step from its neighbours, accuracy itself is C01/C02"]
REQUIRED = ["runs", "observables_checked", "times_checked", "values_compared", "near_collision_cases"]
SHARD_TIMEOUT = {"quick": 1700, "thorough": 5 * 3600}
BACKENDS = ["sv", "mps", "mps", "dmrg"]


def gen_cases(tier, seed):
    rng = np.random.default_rng(seed)
    n_cases = 96 if tier == "quick" else 1500
    return [{"seed": int(rng.integers(1 << 30)), "backend": BACKENDS[i % 4], "style": adapter.EVAL_STYLES[i % len(adapter.EVAL_STYLES)],
             "collision": ["none", "near-default", "near-grid", "near-own", "ulp-default", "ulp-grid", "ulp-own", "long-linspace"][(i // 4) % 8]} for i in range(n_cases)]


def run_case(case):
    import emu_mps
    import emu_sv
    from emu_mps.solver import Solver

    rng = np.random.default_rng(case["seed"])
    bk = case["backend"]
    n = 2 if bk != "sv" else int(rng.integers(1, 4))
    mod = bool(rng.random() < 0.2) and bk != "dmrg"
    spec = seqgen.random_spec(rng, n=n, basis="ising", dmin=7.0, max_dur=int(rng.choice([20, 90, 300])), min_dur=8, n_pulses=int(rng.integers(1, 3)),
                              modulation=mod, wf_kinds=["const", "ramp", "blackman", "interp"], amp_max=8.0, det_max=10.0)
    if case["collision"] == "long-linspace":
        # > 65 us: one ulp of an absolute time in ns exceeds 1e-11, so times that coincide with the dt grid up to rounding are ~1e-11 ns apart
        mod = False
        T = int(rng.choice([70000, 100000, 131000]))
        spec = {"basis": "ising", "device": "mock", "atoms": [[f"q{i}", 9.0 * i, 0.0] for i in range(n)], "has_global": True,
                "ops": [{"op": "pulse", "ch": "g", "amp": ["const", T, float(rng.uniform(0.05, 0.3))], "det": ["const", T, float(rng.uniform(-0.2, 0.2))], "phase": 0.0}]}
    seq = seqgen.build(spec)
    duration = adapter.expected_duration(seq, mod)
    dt = float(rng.choice([0.1, 0.3, 0.5, 1, 2.5, 3, 7, 10, 33])) if duration <= 60 else float(rng.choice([1, 2.5, 3, 7, 10, 33, 100, 1000]))
    if duration / dt > 400:
        dt = float(max(1.0, round(duration / 300)))
    if case["collision"] == "long-linspace":
        dt = float(rng.choice([2000, 5000, 1000]))
    default = adapter.rand_eval_times(rng, case["style"], duration, dt)
    own_style = str(rng.choice(adapter.EVAL_STYLES))
    own = adapter.rand_eval_times(rng, own_style, duration, dt)
    own2 = adapter.rand_eval_times(rng, str(rng.choice(adapter.EVAL_STYLES)), duration, dt)
    tolp = 0.5 / duration  # Pulser's own matching tolerance inside Observable.__call__
    col = case["collision"]
    if col == "near-default" and default:
        base = float(rng.choice(default))
        own = sorted(set(own) | {min(1.0, max(0.0, base + float(rng.choice([-0.6, -0.3, 0.3, 0.6])) * tolp))})
    elif col == "near-grid":
        k = int(rng.integers(0, int(duration // dt) + 1))
        own = sorted(set(own) | {min(1.0, max(0.0, k * dt / duration + float(rng.choice([-0.6, 0.3, 0.6])) * tolp))})
    elif col == "near-own" and own:
        base = float(rng.choice(own))
        own2 = sorted(set(own2) | {min(1.0, max(0.0, base + 0.4 * tolp))})
    elif col.startswith("ulp"):
        # the same time up to rounding (a few ulp, or a few 1e-12): must be treated as ONE time
        def wiggle(t):
            k = int(rng.integers(0, 4))
            w = [float(np.nextafter(t, 2.0)), float(np.nextafter(t, -1.0)), t + 5e-12, t - 3e-12][k]
            return min(1.0, max(0.0, w))
        if col == "ulp-default" and default:
            own = sorted(set(own) | {wiggle(float(rng.choice(default)))})
        elif col == "ulp-grid":
            k = int(rng.integers(1, max(2, int(duration // dt))))
            own = sorted(set(own) | {wiggle(k * dt / duration)})
        elif own:
            own2 = sorted(set(own2) | {wiggle(float(rng.choice(own)))})
    elif col == "long-linspace":
        m = int(rng.choice([11, 21, 41]))
        default = [float(x) for x in np.linspace(0, 1, m)]
        own = [float(x) for x in np.linspace(0, 1, m)[1::2]]
        own2 = [float(k * dt / duration) for k in range(1, int(duration // dt), 3)]

    def clean(ts):
        out = []
        for t in sorted(set(ts)):
            if not out or t - out[-1] > 1e-9:
                out.append(float(t))
        return out

    own, own2, default = clean(own), clean(own2), clean(default)
    M = emu_sv if bk == "sv" else emu_mps
    obs = [M.Occupation(evaluation_times=own), M.Energy(evaluation_times=None), M.CorrelationMatrix(evaluation_times=own2),
           M.BitStrings(evaluation_times=None, num_shots=10), M.Occupation(evaluation_times=None, tag_suffix="dflt"),
           M.StateResult(evaluation_times=own2 if rng.random() < 0.5 else None)]
    order = rng.permutation(len(obs))
    obs = [obs[i] for i in order]
    kw = dict(dt=dt, observables=obs, default_evaluation_times=default, with_modulation=mod, log_level=e2e.quiet())
    cnt = {k: 0 for k in REQUIRED}
    cnt["rejected"] = 0
    viol, worst = [], {}
    fp = f"{bk}:dt{dt:g}:T{duration:g}:{case['style']}:{own_style}:{col}:mod{int(mod)}"
    sample = {"spec": spec, "backend": bk, "dt": dt, "duration": duration, "default_evaluation_times": default, "occupation_times": own, "correlation_times": own2}
    if col != "none":
        cnt["near_collision_cases"] += 1
    try:
        if bk == "sv":
            cfg = emu_sv.SVConfig(gpu=False, krylov_tolerance=1e-10, **kw)
            B = emu_sv.SVBackend
        else:
            cfg = emu_mps.MPSConfig(num_gpus_to_use=0, precision=1e-9, solver=Solver.DMRG if bk == "dmrg" else Solver.TDVP, **kw)
            B = emu_mps.MPSBackend
        with e2e.recording(B) as rec:
            results = B(seq, config=cfg).run()
    except Exception as e:
        import traceback

        fr = [f"{f.filename.split('/')[-1]}:{f.name}" for f in traceback.extract_tb(e.__traceback__) if "/emu_" in f.filename or "pulser/backend" in f.filename]
        cnt["runs"] += 1
        what = "evaluation-times-not-unique" if "must be unique" in str(e) else f"{type(e).__name__}:{fr[-1] if fr else '?'}"
        viol.append({"key": f"C14:run-raises:{what}", "msg": f"{fp}: {e}"[:400], "detail": sample})
        return {"fp": fp, "nontrivial": False, "violations": viol, "counters": cnt, "max": worst, "sample": sample}
    cnt["runs"] += 1
    snap, _ = rec[0]
    tags = set(results.get_result_tags())
    for o in cfg.observables:
        want = default if o.evaluation_times is None else [float(t) for t in o.evaluation_times]
        cnt["observables_checked"] += 1
        if o.tag not in tags:
            if want:
                viol.append({"key": "C14:observable-missing-from-results", "msg": f"{fp}: {o.tag} requested at {want[:4]}"})
            continue
        got = [float(t) for t in results.get_result_times(o.tag)]
        cnt["times_checked"] += len(got)
        own_times = o.evaluation_times is not None
        if any(b <= a for a, b in zip(got, got[1:])):
            viol.append({"key": "C14:stored-times-not-strictly-increasing", "msg": f"{fp}: {o.tag} {got[:8]}"})
        missing = [t for t in want if not any(abs(t - g) <= 1e-9 for g in got)]
        extra = [g for g in got if not any(abs(t - g) <= 1e-9 for t in want)]
        dup = len(got) - len({round(g, 9) for g in got})
        if missing:
            viol.append({"key": f"C14:requested-time-not-stored:{'own' if own_times else 'default'}-times", "msg": f"{fp}: {o.tag} missing {missing[:4]} stored {got[:6]}", "detail": sample})
        if extra:
            kind = "a-default-time" if any(abs(e_ - t) <= 1e-9 for e_ in extra for t in default) else "a-grid-point" if any(abs(e_ * duration / dt - round(e_ * duration / dt)) < 1e-6 for e_ in extra) else "another-time"
            viol.append({"key": f"C14:stored-at-unrequested-time:{'own' if own_times else 'default'}-times:{kind}", "msg": f"{fp}: {o.tag} extra {extra[:4]} requested {want[:6]}", "detail": sample})
        if dup:
            viol.append({"key": "C14:time-stored-twice", "msg": f"{fp}: {o.tag} {got[:8]}"})
    # values at exactly those times
    nsteps = len(snap["target_times"]) - 1
    if bk == "sv":
        # accuracy is C01's business (incl. the known optimistic Krylov estimate, up to ~1e-5): here the value only has to be the
        # one of ITS time; consecutive steps differ by ~|H|*dt >= 1e-3, so 3e-5 separates them with a wide margin
        tol = 3e-5
        states, hams = e2e.propagate(snap, None, umode="start")
        v, w, c = e2e.compare_results(results, snap, states, hams, state_tol=tol, obs_tol=tol)
    elif bk == "mps":
        tol = 3e-5
        states, hams = e2e.propagate(snap, None, umode="mid")
        v, w, c = e2e.compare_results(results, snap, states, hams, state_tol=5 * tol, obs_tol=tol, check_tags={"occupation", "occupation_dflt", "correlation_matrix", "energy", "state"})
    else:
        v, w, c = [], {}, {"values_compared": 0, "states_compared": 0}
        for t_rel in results.get_result_times("energy") if "energy" in tags else []:
            k, off = e2e.time_index(snap, t_rel)
            if off > 1e-6:
                continue
            H = e2e.step_hamiltonian(snap, max(k - 1, 0), "mid")
            E0 = float(np.linalg.eigvalsh(H)[0])
            E = float(results.get_result("energy", t_rel))
            c["values_compared"] += 1
            # DMRG may legitimately sit in an excited eigenstate when the drive vanishes (C09 judges convergence); here only the
            # variational bound w.r.t. the Hamiltonian of ITS step is asserted
            if k > 0 and E < E0 - 1e-6 * (1 + abs(E0)):
                v.append(("dmrg-energy-below-ground-energy-of-the-step-at-its-time", f"t={t_rel:.6g} E={E!r} E0(step {k-1})={E0!r}"))
    cnt["values_compared"] += c["values_compared"] + c.get("states_compared", 0)
    worst.update(w)
    for key, msg in v[:3]:
        viol.append({"key": "C14:value-not-from-the-state-at-its-time:" + key, "msg": f"{fp}: {msg}", "detail": sample})
    nontrivial = own != default and any(abs(t * duration / dt - round(t * duration / dt)) > 1e-6 for t in own + default)
    return {"fp": fp, "nontrivial": nontrivial, "violations": viol[:6], "counters": cnt, "max": worst, "sample": sample if case["idx"] % 24 == 0 else None}
