"""C10 — MPS truncation and canonical form honour their contract.

Monitors: (1) postcondition on the real `emu_mps.utils.split_matrix` (rank cap, isometry of the orthogonal side,
discarded weight <= max_error^2 unless the cap binds, norm preservation); (2) history driver: random MPS subjected
to random sequences of public operations; after every operation each live MPS with a declared orthogonality
centre must be left/right-orthonormal around it, `norm()` must equal the dense norm, truncating operations must
respect the bond cap and (cap not binding) must not discard more than (n-1)*precision^2 of weight in total.
"""
import numpy as np

from vlib import ref, tn

ID = "C10"
LEVEL = "exploration"
ENGINE = "unit-contracts"
TECHNIQUE = "runtime postcondition on split_matrix + canonical-form/bond/discarded-weight invariants checked after every operation of random MPS operation histories (dense shadow)"
LEVEL_TEXT = ("Exploration: thousands of random matrices through split_matrix (both orientations, preserve_norm on/off, max_error 1e-2..1e-12, "
              "rank caps 1..64, graded/clustered/rank-deficient spectra) and random operation histories (orthogonalize, truncate, +, scalar *, "
              "apply, expect_batch, correlation matrix, entropy, sample, norm, MPO.apply_to) on MPS of 2-10 sites, bonds <= 32, qubits and "
              "qutrits; invariants evaluated after every step against the dense vector.")
LEVEL_NOTE = ("Discarded weight is measured as |m - Q Q^dag m|_F^2; bound max_error^2 + 8*eps*min(rows,cols)*|m|_F^2 (rounding floor of the "
              "Gram-matrix eigendecomposition, measured excess <= 0.1 of that unit).")
RULE = ("split cases: (shape, spectrum style, max_error exponent, cap, orientation, preserve_norm); histories: (n, d, precision, cap, op sequence). "
        "distinct = those tuples; non-trivial = the operation actually discarded weight or changed the centre")
ASSUMPTIONS = ["rounding floor 8*eps*min(rows,cols)*|m|^2 on the discarded weight of one split; (n-1) such terms for a full truncation sweep",
               "MPS handed to the driver are built through the public constructor; internal accumulator states are not inspected"]
REQUIRED = ["split_checked", "split_cap_not_binding", "history_ops", "canonical_checks", "truncations_checked"]
EPS = 2.220446049250313e-16


def gen_cases(tier, seed):
    rng = np.random.default_rng(seed)
    a = 24 if tier == "quick" else 400
    b = 40 if tier == "quick" else 600
    return ([{"kind": "split", "seed": int(rng.integers(1 << 30)), "count": 40} for _ in range(a)]
            + [{"kind": "history", "seed": int(rng.integers(1 << 30)), "count": 4} for _ in range(b)])


def _matrix(rng, r, c, style):
    k = min(r, c)
    u, _ = np.linalg.qr(rng.normal(size=(r, k)) + 1j * rng.normal(size=(r, k)))
    v, _ = np.linalg.qr(rng.normal(size=(c, k)) + 1j * rng.normal(size=(c, k)))
    if style == "graded":
        s = 10.0 ** (-rng.uniform(0.3, 2.0) * np.arange(k))
    elif style == "clustered":
        s = np.where(np.arange(k) < max(1, k // 2), 1.0, 10 ** rng.uniform(-9, -2)) * (1 + 1e-3 * rng.random(k))
    elif style == "deficient":
        s = np.where(np.arange(k) < max(1, k // 3), rng.uniform(0.5, 1, size=k), 0.0)
    elif style == "flat":
        s = np.ones(k)
    else:
        s = np.abs(rng.normal(size=k))
    s = np.sort(s)[::-1] * 10 ** rng.uniform(-2, 2)
    return (u * s) @ v.conj().T


def _split_cases(case):
    import torch
    import emu_mps.utils as mu

    rng = np.random.default_rng(case["seed"])
    cnt = {k: 0 for k in REQUIRED}
    viol, fps = [], []
    worst = {"discard_excess_over_floor": 0.0, "isometry_dev": 0.0}
    sample = None
    for _ in range(case["count"]):
        r, c = int(rng.integers(1, 65)), int(rng.integers(1, 65))
        style = str(rng.choice(["graded", "clustered", "deficient", "flat", "random"]))
        m = _matrix(rng, r, c, style)
        me = float(10 ** rng.uniform(-12, -2)) * (np.linalg.norm(m) if rng.random() < 0.5 else 1.0)
        cap = int(rng.integers(1, 65)) if rng.random() < 0.6 else 1024
        right = bool(rng.random() < 0.5)
        pn = bool(rng.random() < 0.4)
        mt = torch.tensor(m, dtype=torch.complex128)
        desc = f"{r}x{c} {style} max_error={me:.2e} cap={cap} orth_center_right={right} preserve_norm={pn}"
        try:
            L, R = mu.split_matrix(mt.clone(), max_error=me, max_rank=cap, orth_center_right=right, preserve_norm=pn)
        except Exception as e:
            viol.append({"key": f"C10:split_matrix-raises:{type(e).__name__}", "msg": f"{desc}: {e}"[:300]})
            cnt["split_checked"] += 1
            continue
        cnt["split_checked"] += 1
        L, R = L.numpy(), R.numpy()
        rank = L.shape[1]
        if L.shape[0] != r or R.shape[1] != c or R.shape[0] != rank or rank < 1:
            viol.append({"key": "C10:split-shapes-inconsistent", "msg": f"{desc}: {L.shape} {R.shape}"})
            continue
        if rank > cap:
            viol.append({"key": "C10:split-rank-exceeds-cap", "msg": f"{desc}: rank {rank}"})
        Q = L if right else R.conj().T  # columns orthonormal
        iso = float(np.abs(Q.conj().T @ Q - np.eye(rank)).max())
        worst["isometry_dev"] = max(worst["isometry_dev"], iso)
        iso_floor = 1e-9
        if iso > iso_floor:
            # the isometric side IS a block of eigenvectors returned by torch.linalg.eigh for the Gram matrix: for tightly clustered spectra that
            # routine itself returns vectors that are orthonormal only to ~1e-7 (numpy's LAPACK call: 1e-12 on the same matrix). The split must not
            # be worse than its eigensolver; the eigensolver's own defect is a floor of the dependency, measured here on the same input.
            G_ = mt @ mt.T.conj() if right else mt.T.conj() @ mt
            q_ = torch.linalg.eigh(G_)[1]
            iso_floor = max(iso_floor, 10 * float((q_.T.conj() @ q_ - torch.eye(q_.shape[0], dtype=q_.dtype)).abs().max()))
            cnt["eigensolver_floor_applied"] = cnt.get("eigensolver_floor_applied", 0) + 1
        if iso > iso_floor:
            viol.append({"key": "C10:split-orthogonal-side-not-isometric", "msg": f"{desc}: dev {iso:.2e}"})
        proj = Q @ (Q.conj().T @ m) if right else (m @ Q) @ Q.conj().T
        disc = float(np.linalg.norm(m - proj) ** 2)
        n2 = float(np.linalg.norm(m) ** 2)
        floor = 8 * EPS * min(r, c) * n2
        if rank < min(cap, min(r, c)) or rank < cap:
            cnt["split_cap_not_binding"] += 1
            if disc > me * me:
                worst["discard_excess_over_floor"] = max(worst["discard_excess_over_floor"], (disc - me * me) / floor if floor > 0 else 0.0)
            if disc > me * me + floor:
                viol.append({"key": "C10:split-discards-more-than-max_error-squared", "msg": f"{desc}: discarded {disc:.3e} > {me*me:.3e} (+floor {floor:.1e}), rank {rank}"})
        prod = L @ R
        if pn:
            if abs(np.linalg.norm(prod) - np.sqrt(n2)) > 1e-9 * (1 + np.sqrt(n2)):
                viol.append({"key": "C10:split-preserve_norm-does-not-preserve-norm", "msg": f"{desc}: {np.linalg.norm(prod)!r} vs {np.sqrt(n2)!r}"})
        else:
            if np.linalg.norm(prod - proj) > 1e-9 * (1 + np.sqrt(n2)):
                viol.append({"key": "C10:split-product-is-not-the-projection", "msg": desc})
        fps.append(f"split:{r}:{c}:{style}:{int(np.log10(me))}:{cap}:{right}:{pn}")
        if sample is None and r <= 4 and c <= 4:
            sample = {"kind": "split", "shape": [r, c], "style": style, "max_error": me, "cap": cap, "rank": rank, "discarded_weight": disc}
    return {"fp": None, "nontrivial": False, "fps": fps, "n_eval": case["count"], "violations": viol[:6], "counters": cnt, "max": worst,
            "sample": sample if case["idx"] % 8 == 0 else None}


OPS = ["orthogonalize", "truncate", "add", "scale", "apply", "expect_batch", "correlation", "entropy", "sample", "norm", "apply_to", "imul"]


def _history_cases(case):
    import torch
    from emu_mps import MPS

    rng = np.random.default_rng(case["seed"])
    cnt = {k: 0 for k in REQUIRED}
    viol, fps = [], []
    worst = {"canonical_dev": 0.0, "truncation_weight_over_budget": 0.0, "norm_rel_dev": 0.0}
    sample = None
    for _ in range(case["count"]):
        n = int(rng.integers(2, 11)) if rng.random() < 0.7 else int(rng.integers(2, 6))
        d = 2 if rng.random() < 0.65 else 3
        if d == 3 and n > 7:
            n = 7  # the dense shadow of an MPO on 3^8 states would not fit in memory
        chi = int(rng.choice([1, 2, 4, 8, 16, 32]))
        prec = float(10 ** rng.uniform(-12, -2))
        cap = int(rng.choice([1, 2, 3, 5, 8, 16, 64, 1024]))
        psi = tn.rand_mps(rng, n, d, chi, precision=prec, max_bond_dim=cap, scale=float(10 ** rng.uniform(-1, 1)),
                          center=None, real=bool(rng.random() < 0.2))
        shadow = tn.dense(psi)
        hist = []
        desc0 = f"n={n} d={d} chi<={chi} precision={prec:.1e} cap={cap}"
        for step in range(int(rng.integers(3, 10))):
            op = str(rng.choice(OPS))
            hist.append(op)
            desc = f"{desc0} history={hist}"
            before_bonds = tn.bonds(psi)
            truncating = False
            try:
                if op == "orthogonalize":
                    k = int(rng.integers(n))
                    hist[-1] = f"orthogonalize({k})"
                    psi.orthogonalize(k)
                    if psi.orthogonality_center != k:
                        viol.append({"key": "C10:orthogonalize-does-not-set-centre", "msg": desc})
                elif op == "truncate":
                    psi.truncate()
                    truncating = True
                elif op == "add":
                    other = tn.rand_mps(rng, n, d, int(rng.choice([1, 2, 4])), precision=prec, max_bond_dim=cap, center=None)
                    so = tn.dense(other)
                    psi = psi + other
                    shadow = shadow + so
                    truncating = True
                elif op == "scale":
                    z = complex(rng.normal(), rng.normal()) * 10 ** rng.uniform(-1, 1)
                    psi = z * psi
                    shadow = z * shadow
                elif op == "imul":
                    z = float(10 ** rng.uniform(-1, 1))
                    psi *= z
                    shadow = z * shadow
                elif op == "apply":
                    q = int(rng.integers(n))
                    o = rng.normal(size=(d, d)) + 1j * rng.normal(size=(d, d))
                    hist[-1] = f"apply({q})"
                    psi.apply(q, torch.tensor(o, dtype=torch.complex128))
                    shadow = tn.site_op(o, q, n, d) @ shadow
                    if psi.orthogonality_center != q:
                        viol.append({"key": "C10:apply-does-not-leave-centre-on-site", "msg": desc})
                elif op == "expect_batch":
                    psi.expect_batch(torch.tensor(rng.normal(size=(2, d, d)), dtype=torch.complex128))
                elif op == "correlation":
                    psi.get_correlation_matrix()
                elif op == "entropy":
                    psi.entanglement_entropy(int(rng.integers(n - 1)))
                elif op == "sample":
                    psi.sample(num_shots=3)
                elif op == "norm":
                    psi.norm()
                elif op == "apply_to":
                    H = tn.rand_mpo(rng, n, d, 2)
                    so = tn.dense_op(H) @ shadow
                    keep = (psi.precision, psi.max_bond_dim)
                    psi = H.apply_to(psi)
                    psi.precision, psi.max_bond_dim = keep  # apply_to returns default settings; the driver restores the history's
                    shadow = so
                    truncating = True
            except Exception as e:
                viol.append({"key": f"C10:operation-raises:{op}:{type(e).__name__}", "msg": f"{desc}: {e}"[:300]})
                break
            cnt["history_ops"] += 1
            # ---- invariants
            now = tn.dense(psi)
            nrm = float(np.linalg.norm(shadow))
            ce = tn.canonical_errors(psi)
            if ce is not None:
                cnt["canonical_checks"] += 1
                worst["canonical_dev"] = max(worst["canonical_dev"], max(ce))
                if max(ce) > 1e-9:
                    side = "left" if ce[0] > 1e-9 else "right"
                    viol.append({"key": f"C10:not-canonical-around-declared-centre:{side}:after-{op}", "msg": f"{desc}: deviation {max(ce):.2e} centre {psi.orthogonality_center}"})
                    break
                got = float(psi.factors[psi.orthogonality_center].norm())
                dn = float(np.linalg.norm(now))
                worst["norm_rel_dev"] = max(worst["norm_rel_dev"], abs(got - dn) / (1e-300 + dn))
                if abs(got - dn) > 1e-9 * (1 + dn):
                    viol.append({"key": "C10:centre-tensor-norm-differs-from-state-norm", "msg": f"{desc}: {got!r} vs {dn!r}"})
                    break
            nb = float(psi.norm())
            dn = float(np.linalg.norm(tn.dense(psi)))
            if abs(nb - dn) > 1e-9 * (1 + dn):
                viol.append({"key": f"C10:norm()-differs-from-dense-norm:after-{op}", "msg": f"{desc}: {nb!r} vs {dn!r}"})
                break
            if truncating:
                cnt["truncations_checked"] += 1
                b = tn.bonds(psi)
                if max(b) > cap:
                    viol.append({"key": f"C10:bond-exceeds-max_bond_dim:after-{op}", "msg": f"{desc}: bonds {b}"})
                    break
                if psi.orthogonality_center != 0:
                    viol.append({"key": f"C10:truncation-does-not-leave-centre-at-0:after-{op}", "msg": desc})
                eff_cap, eff_prec = cap, prec  # MPO.apply_to truncates with the operand's own precision / max_bond_dim
                if max(b) < eff_cap:  # cap did not bind anywhere
                    w = float(np.linalg.norm(now - shadow) ** 2)
                    budget = (n - 1) * (eff_prec ** 2 + 8 * EPS * d * 64 * nrm ** 2) + 1e-24 * nrm ** 2
                    worst["truncation_weight_over_budget"] = max(worst["truncation_weight_over_budget"], w / budget)
                    if w > budget:
                        viol.append({"key": f"C10:truncation-discards-more-than-precision-squared-per-bond:after-{op}",
                                     "msg": f"{desc}: |psi_before-psi_after|^2={w:.3e} budget={(n-1)}*{eff_prec:.1e}^2={budget:.3e} |psi|={nrm:.3g} bonds {before_bonds}->{b}"})
                        break
                shadow = now  # continue the history from what the MPS now represents
            else:
                if np.linalg.norm(now - shadow) > 1e-9 * (1 + nrm):
                    viol.append({"key": f"C10:operation-changed-the-represented-state:{op}", "msg": f"{desc}: {np.linalg.norm(now - shadow):.2e}"})
                    break
        fps.append(f"hist:{n}:{d}:{int(np.log10(prec))}:{cap}:{'/'.join(h.split('(')[0][:4] for h in hist)}")
        if sample is None:
            sample = {"kind": "history", "n": n, "d": d, "precision": prec, "max_bond_dim": cap, "history": hist, "final_bonds": tn.bonds(psi)}
    return {"fp": None, "nontrivial": False, "fps": fps, "n_eval": case["count"], "violations": viol[:6], "counters": cnt, "max": worst,
            "sample": sample if case["idx"] % 10 == 0 else None}


def run_case(case):
    return _split_cases(case) if case["kind"] == "split" else _history_cases(case)
