"""C12 — state-vector and density-matrix objects are faithful to their definitions.

Monitor: differential driver on the real `StateVector`, `DensityMatrix`, `DenseOperator`, `SparseOperator`:
construction from Pulser's abstract representations is compared with the Kronecker-product construction in
the (g=0, r=1, atom 0 most significant) basis, dense and sparse operators must agree, and every algebraic
operation is compared with the dense linear-algebra definition; operands must be left unchanged.
"""
import numpy as np

from vlib.props.C11 import _dense_qudit, _qudit_op

ID = "C12"
LEVEL = "exploration"
ENGINE = "unit-contracts"
TECHNIQUE = "differential monitor: Kronecker-product oracle for from_state_amplitudes/from_operator_repr, dense-vs-sparse agreement, dense linear algebra for every public operation"
LEVEL_TEXT = ("Exploration: 1-8 qubits; random amplitude dictionaries (1..2^n entries, unnormalised, complex), operator representations with "
              "several terms, multi-target QuditOps, unit and complex weights, repeated symbols across terms; random complex vectors and "
              "matrices; StateVector/DensityMatrix inner, norm, overlap, +, scalar *; Dense/Sparse apply_to, expect, +, scalar *, dense @.")
LEVEL_NOTE = "Inputs Pulser's validator rejects (overlapping targets, non-eigenstate keys) are checked to be rejected, not interpreted."
RULE = "(n, #amplitudes, #terms, weights style); distinct = that + hash; non-trivial = n >= 2 and at least one term acts on a strict subset of the qubits"
ASSUMPTIONS = ["basis order g=0, r=1, qubit 0 most significant (the emulators' documented convention)", "tolerance 1e-12 relative"]
REQUIRED = ["state_constructions", "operator_constructions", "dense_sparse_agreements", "algebra_checks", "rejections_checked"]
BATCH = 8


def gen_cases(tier, seed):
    rng = np.random.default_rng(seed)
    reps = 30 if tier == "quick" else 500
    return [{"seed": int(rng.integers(1 << 30)), "count": BATCH} for _ in range(reps)]


def run_case(case):
    import torch
    from emu_sv import StateVector, DensityMatrix, DenseOperator, SparseOperator
    from emu_sv.state_vector import inner as sv_inner

    rng = np.random.default_rng(case["seed"])
    cnt = {k: 0 for k in REQUIRED}
    viol, fps = [], []
    worst = {"rel_err": 0.0}
    sample = None
    eig = ("r", "g")
    order = ["g", "r"]

    def chk(name, got, want, desc, tol=1e-12):
        got, want = np.asarray(got), np.asarray(want)
        if got.shape != want.shape:
            viol.append({"key": f"C12:{name}-shape-differs", "msg": f"{desc}: {got.shape} vs {want.shape}"})
            return
        e = float(np.abs(got - want).max()) / (1.0 + float(np.abs(want).max()))
        worst["rel_err"] = max(worst["rel_err"], e)
        if not e <= tol:
            viol.append({"key": f"C12:{name}-differs-from-definition", "msg": f"{desc}: rel.err {e:.3e}"})

    for _ in range(case["count"]):
        n = int(rng.integers(1, 9))
        D = 2 ** n
        desc = f"n={n}"
        try:
            # ---------------- states from amplitudes
            k = int(rng.integers(1, min(D, 8) + 1))
            amps = {}
            while len(amps) < k:
                amps["".join(str(rng.choice(order)) for _ in range(n))] = complex(rng.normal(), rng.normal()) * 10 ** rng.uniform(-1, 1)
            v = np.zeros(D, dtype=complex)
            for bs, a in amps.items():
                idx = int("".join("1" if c == "r" else "0" for c in bs), 2)
                v[idx] += a
            v /= np.linalg.norm(v)
            sv = StateVector.from_state_amplitudes(eigenstates=eig, amplitudes=amps)
            dm = DensityMatrix.from_state_amplitudes(eigenstates=eig, amplitudes=amps)
            cnt["state_constructions"] += 2
            chk("statevector-from-amplitudes", sv.data.numpy(), v, desc + f" amps={list(amps)[:3]}")
            chk("densitymatrix-from-amplitudes", dm.data.numpy(), np.outer(v, v.conj()), desc)
            if sv.n_qudits != n or dm.n_qudits != n:
                viol.append({"key": "C12:n_qudits-wrong", "msg": desc})
            # ---------------- operators from representation
            terms = []
            total = np.zeros((D, D), dtype=complex)
            strict = False
            for _t in range(int(rng.integers(1, 5))):
                coeff = complex(rng.normal(), rng.normal()) if rng.random() < 0.7 else 1.0
                targets = [int(x) for x in rng.permutation(n)]
                mats = [np.eye(2, dtype=complex) for _ in range(n)]
                pieces = []
                for _p in range(int(rng.integers(1, min(3, n) + 1))):
                    size = int(rng.integers(1, min(3, len(targets)) + 1)) if targets else 0
                    if size == 0:
                        break
                    tg = set(targets[:size])
                    targets = targets[size:]
                    qo = _qudit_op(rng, order, False)
                    pieces.append((qo, tg))
                    m = _dense_qudit(qo, order)
                    for q in tg:
                        mats[q] = m
                if targets:
                    strict = True
                terms.append((coeff, pieces))
                full = np.eye(1, dtype=complex)
                for m in mats:
                    full = np.kron(full, m)
                total += coeff * full
            dop = DenseOperator.from_operator_repr(eigenstates=eig, n_qudits=n, operations=terms)
            sop = SparseOperator.from_operator_repr(eigenstates=eig, n_qudits=n, operations=terms)
            cnt["operator_constructions"] += 2
            dd = dop.data.numpy()
            sd = sop.data.to_dense().numpy()
            chk("denseoperator-from-repr", dd, total, desc + f" terms={terms if n <= 2 else len(terms)}")
            chk("sparseoperator-from-repr", sd, total, desc + f" terms={len(terms)}")
            cnt["dense_sparse_agreements"] += 1
            if np.abs(dd - sd).max() > 1e-12 * (1 + np.abs(total).max()):
                viol.append({"key": "C12:dense-and-sparse-operators-disagree", "msg": f"{desc}: {np.abs(dd - sd).max():.3e}"})
            # building it a second time must give the same operator (no state leaks between calls)
            dop2 = DenseOperator.from_operator_repr(eigenstates=eig, n_qudits=n, operations=terms)
            if not np.array_equal(dop2.data.numpy(), dd):
                viol.append({"key": "C12:from_operator_repr-not-reproducible", "msg": desc})
            # ---------------- algebra
            x = rng.normal(size=D) + 1j * rng.normal(size=D)
            y = rng.normal(size=D) + 1j * rng.normal(size=D)
            X, Y = StateVector(torch.tensor(x), gpu=False), StateVector(torch.tensor(y), gpu=False)
            z = complex(rng.normal(), rng.normal())
            chk("inner", X.inner(Y).numpy(), np.vdot(x, y), desc)
            chk("inner-function", sv_inner(X, Y).numpy(), np.vdot(x, y), desc)
            chk("norm", float(X.norm()), np.linalg.norm(x), desc)
            chk("overlap", float(X.overlap(Y)), abs(np.vdot(x, y)) ** 2, desc)
            chk("state-add", (X + Y).data.numpy(), x + y, desc)
            chk("state-scale", (z * X).data.numpy(), z * x, desc)
            M = rng.normal(size=(D, D)) + 1j * rng.normal(size=(D, D))
            N = rng.normal(size=(D, D)) + 1j * rng.normal(size=(D, D))
            DM, DN = DenseOperator(torch.tensor(M), gpu=False), DenseOperator(torch.tensor(N), gpu=False)
            chk("dense-apply_to", DM.apply_to(X).data.numpy(), M @ x, desc, 1e-11)
            chk("dense-expect", DM.expect(X).numpy(), np.vdot(x, M @ x), desc, 1e-11)
            chk("dense-matmul", (DM @ DN).data.numpy(), M @ N, desc, 1e-11)
            chk("dense-add", (DM + DN).data.numpy(), M + N, desc)
            chk("dense-scale", (z * DM).data.numpy(), z * M, desc)
            chk("sparse-apply_to", sop.apply_to(X).data.numpy(), total @ x, desc, 1e-11)
            chk("sparse-expect", sop.expect(X).numpy(), np.vdot(x, total @ x), desc, 1e-11)
            chk("sparse-add", (sop + sop).data.to_dense().numpy(), 2 * total, desc)
            chk("sparse-scale", (z * sop).data.to_dense().numpy(), z * total, desc)
            chk("dense-from-repr-apply", dop.apply_to(X).data.numpy(), total @ x, desc, 1e-11)
            r1 = rng.normal(size=(D, D)) + 1j * rng.normal(size=(D, D))
            r2 = rng.normal(size=(D, D)) + 1j * rng.normal(size=(D, D))
            chk("densitymatrix-overlap", DensityMatrix(torch.tensor(r1), gpu=False).overlap(DensityMatrix(torch.tensor(r2), gpu=False)).numpy(),
                np.trace(r1.conj().T @ r2), desc, 1e-11)
            chk("densitymatrix-from-state-vector", DensityMatrix.from_state_vector(X).data.numpy(), np.outer(x, x.conj()), desc)
            cnt["algebra_checks"] += 20
            for nm_, obj, ref_ in (("X", X, x), ("Y", Y, y)):
                if not np.array_equal(obj.data.numpy(), ref_):
                    viol.append({"key": "C12:operation-changed-its-operand", "msg": f"{desc}: {nm_}"})
            if not np.array_equal(DM.data.numpy(), M) or np.abs(sop.data.to_dense().numpy() - sd).max() > 0:
                viol.append({"key": "C12:operation-changed-its-operand", "msg": f"{desc}: operator"})
            # ---------------- inputs the public API must reject
            bad = 0
            for badrep in ([(1.0, [({"gg": 1.0}, {0}), ({"rr": 1.0}, {0})])] if n >= 1 else [],
                           [(1.0, [({"ab": 1.0}, {0})])]):
                if not badrep:
                    continue
                try:
                    DenseOperator.from_operator_repr(eigenstates=eig, n_qudits=n, operations=badrep)
                    viol.append({"key": "C12:invalid-operator-representation-accepted", "msg": f"{desc}: {badrep}"})
                except Exception:
                    bad += 1
            cnt["rejections_checked"] += bad
        except Exception as e:
            import traceback

            fr = [f"{f.name}" for f in traceback.extract_tb(e.__traceback__) if "/emu_" in f.filename]
            viol.append({"key": f"C12:operation-raises:{type(e).__name__}:{fr[-1] if fr else 'pulser'}", "msg": f"{desc}: {e}"[:300]})
            continue
        if n >= 2 and strict:
            fps.append(f"{n}:{k}:{len(terms)}:{hash(total.tobytes()) & 0xffff:x}")
        if sample is None and n <= 3:
            sample = {"n": n, "amplitudes": {k_: [v_.real, v_.imag] for k_, v_ in amps.items()},
                      "operations": [[[c.real, c.imag] if isinstance(c, complex) else c, [[{kk: [complex(vv).real, complex(vv).imag] for kk, vv in qo.items()}, sorted(tg)] for qo, tg in pcs]] for c, pcs in terms]}
    return {"fp": None, "nontrivial": False, "fps": fps, "n_eval": case["count"], "violations": viol[:8], "counters": cnt, "max": worst,
            "sample": sample if case["idx"] % 10 == 0 else None}
