"""C17 — emu-mps quantum-jump trajectories reproduce Lindblad dynamics on average.

Monitor: one `MPSBackend.run()` with n_trajectories = K; the per-trajectory `Results` are captured by a spy on
`Results.aggregate`, the `SequenceData` of the first trajectory by the boundary recorder.  Oracle: exact solution
of the Lindblad master equation built from that SequenceData (dense Liouvillian).  Test: two-stage z-test of the
trajectory mean of every occupation at every evaluation time against the master-equation value, with the sample
standard error; per trajectory: values in their physical range and the solver's state normalised when observed.
"""
import numpy as np

from vlib import e2e, ref, seqgen

ID = "C17"
LEVEL = "exploration"
ENGINE = "e2e-reference"
TECHNIQUE = "statistical monitor (two-stage z-test, sample standard error) of per-trajectory results captured at Results.aggregate against a dense master-equation reference; per-trajectory range/normalisation invariants"
LEVEL_TEXT = ("Exploration: 2-3 atom ising and XY sequences with relaxation, dephasing, depolarizing, effective and leakage (3-level) noise, rates "
              "0.2-3 /us so that jumps are typical; K trajectories inside ONE run() (so that state shared between trajectories is exercised); "
              "the mean occupation per atom and time must agree with the master equation within 4.4 sigma (stage 1) and, if not, again with "
              "4K fresh trajectories (stage 2); each trajectory's occupations lie in [0,1] and its state is normalised after every time step.")
LEVEL_NOTE = "Per-case false-alarm probability ~1e-9 (two stages at 1e-5 each, <= 12 tests per case). A systematic allowance of 3e-3 covers TDVP's own error for 3 atoms."
RULE = "(basis, noise kind, N, K); distinct = that tuple; non-trivial = the master-equation occupation differs from the noiseless one by > 0.02 somewhere (noise matters) and jumps occurred"
ASSUMPTIONS = ["master equation built from the jump operators the solver was given (their agreement with Pulser's definition is C24)",
               "z-test with the sample standard error of the trajectory values; floor sqrt(p(1-p)/K)/2 on the standard error"]
REQUIRED = ["runs", "trajectories", "z_tests", "per_trajectory_checks", "jumps_observed"]
SHARD_TIMEOUT = {"quick": 1700, "thorough": 6 * 3600}
KINDS = ["relaxation", "dephasing", "depolarizing", "eff", "leakage", "relaxation+dephasing", "xy-dephasing", "xy-eff"]
ZCUT = 4.4


def gen_cases(tier, seed):
    rng = np.random.default_rng(seed)
    n_cases = 16 if tier == "quick" else 48
    return [{"seed": int(rng.integers(1 << 30)), "kind": KINDS[i % len(KINDS)], "n": 2 if i % 3 else 3, "K": 160 if tier == "quick" else 400} for i in range(n_cases)]


def _noise(kind, rng):
    from pulser import NoiseModel

    r = lambda: float(10 ** rng.uniform(-0.7, 0.45))  # noqa: E731  0.2 .. 2.8 /us
    kw = {}
    if "relaxation" in kind:
        kw["relaxation_rate"] = r()
    if "dephasing" in kind:
        kw["dephasing_rate"] = r()
    if kind == "depolarizing":
        kw["depolarizing_rate"] = r()
    if kind.endswith("eff"):
        kw["eff_noise_rates"] = [r(), r()]
        kw["eff_noise_opers"] = [np.array([[0, 1.0], [0, 0]]) if not kind.startswith("xy") else np.array([[0, 0], [1.0, 0]]), rng.normal(size=(2, 2)) + 1j * rng.normal(size=(2, 2))]
    if kind == "leakage":
        a = np.zeros((3, 3))
        a[2, 0] = 1.0  # r -> x in Pulser's (r,g,x) order
        b = np.zeros((3, 3))
        b[1, 0] = 1.0  # r -> g
        kw.update(eff_noise_rates=[r(), r()], eff_noise_opers=[a, b], with_leakage=True)
    return NoiseModel(**kw)


def _run(seq, cfgf, K, seed):
    """one run() with K trajectories; returns (per-trajectory Results list, first snapshot, #jumps, norm violations)"""
    import random

    import torch
    import emu_mps
    import emu_mps.mps_backend_impl as mpi
    from pulser.backend import Results

    captured = []
    orig = Results.__dict__["aggregate"]

    def spy(cls, results, **kwargs):
        captured.append(list(results))
        return orig.__func__(cls, results, **kwargs)

    jumps = {"n": 0, "badnorm": []}
    o_jump = mpi.NoisyMPSBackendImpl.do_random_quantum_jump
    o_tc = mpi.NoisyMPSBackendImpl.timestep_complete

    def jump(self, _o=o_jump):
        jumps["n"] += 1
        r = _o(self)
        nv = float(self.state.norm())
        if abs(nv - 1) > 1e-8:
            jumps["badnorm"].append(("after-jump", nv))
        return r

    def tc(self, _o=o_tc):
        nv = float(self.state.norm())
        if not (0.0 < nv <= 1.0 + 1e-8):
            jumps["badnorm"].append(("between-jumps", nv))
        return _o(self)

    Results.aggregate = classmethod(spy)
    mpi.NoisyMPSBackendImpl.do_random_quantum_jump = jump
    mpi.NoisyMPSBackendImpl.timestep_complete = tc
    random.seed(seed)
    torch.manual_seed(seed)
    np.random.seed(seed % (2 ** 32))
    try:
        with e2e.recording(emu_mps.MPSBackend) as rec:
            emu_mps.MPSBackend(seq, config=cfgf(K)).run()
    finally:
        Results.aggregate = orig
        mpi.NoisyMPSBackendImpl.do_random_quantum_jump = o_jump
        mpi.NoisyMPSBackendImpl.timestep_complete = o_tc
    jumps["ops_differ"] = max((float(np.abs(a - b).max()) for sn, _r in rec[1:] for a, b in zip(sn["lindblad_ops"], rec[0][0]["lindblad_ops"])), default=0.0)
    jumps["aggregated_inputs"] = len(captured[0]) if captured else -1
    return [r for _s, r in rec], rec[0][0], jumps


def run_case(case):
    import emu_mps

    rng = np.random.default_rng(case["seed"])
    kind, n, K = case["kind"], case["n"], case["K"]
    xy = kind.startswith("xy")
    if xy:
        n = 2
    T = int(rng.choice([300, 400, 500]))
    pts = seqgen.positions(rng, n, "line", 8.0 if not xy else 12.0, 0.3)
    spec = {"basis": "xy" if xy else "ising", "device": "mock", "atoms": [[f"q{i}", pts[i][0], pts[i][1]] for i in range(n)], "has_global": True,
            "ops": [{"op": "pulse", "ch": "g", "amp": ["const", T, float(rng.uniform(4, 9))], "det": ["const", T, float(rng.uniform(-3, 3))], "phase": float(rng.choice([0.0, 1.3]))}]}
    if xy:
        spec["mag"] = [0.0, 0.0, 10.0]
    seq = seqgen.build(spec)
    nm = _noise(kind, rng)
    times = [0.25, 0.5, 0.75, 1.0]

    def cfgf(k):
        return emu_mps.MPSConfig(dt=10.0, precision=1e-7, noise_model=nm, n_trajectories=k, observables=[emu_mps.Occupation(evaluation_times=times)],
                                 log_level=e2e.quiet(), num_gpus_to_use=0, optimize_qubit_ordering=False)

    cnt = {k: 0 for k in REQUIRED}
    viol, worst = [], {}
    fp = f"{kind}:n{n}:K{K}:T{T}"
    try:
        trajs, snap, jumps = _run(seq, cfgf, K, case["seed"])
    except Exception as e:
        import traceback

        fr = [f"{f.filename.split('/')[-1]}:{f.name}" for f in traceback.extract_tb(e.__traceback__) if "/emu_" in f.filename]
        cnt["runs"] += 1
        return {"fp": fp, "nontrivial": False, "violations": [{"key": f"C17:run-raises:{type(e).__name__}:{fr[-1] if fr else '?'}", "msg": f"{fp}: {e}"[:300]}], "counters": cnt, "max": {}, "sample": None}
    cnt["runs"] += 1
    cnt["trajectories"] += len(trajs)
    cnt["jumps_observed"] += jumps["n"]
    if len(trajs) != K:
        viol.append({"key": "C17:number-of-trajectories-differs", "msg": f"{fp}: {len(trajs)}"})
    if jumps["aggregated_inputs"] != K:
        viol.append({"key": "C17:aggregate-did-not-receive-every-trajectory", "msg": f"{fp}: {jumps['aggregated_inputs']}"})
    if jumps["ops_differ"] > 0:
        viol.append({"key": "C17:jump-operators-differ-between-trajectories-of-one-run", "msg": f"{fp}: max |difference| {jumps['ops_differ']:.3e} (no per-trajectory noise configured)"})
    for where, nv in jumps["badnorm"][:2]:
        viol.append({"key": f"C17:trajectory-state-norm-out-of-range:{where}", "msg": f"{fp}: norm {nv!r}"})
    # reference
    d = snap["dim"]
    rhos, hams = e2e.propagate_lindblad(snap, None, umode="mid")
    snap0 = dict(snap)
    snap0["lindblad_ops"] = []
    clean, _ = e2e.propagate(snap0, None, umode="mid")

    def ztests(trs, stage):
        arr = {t: np.array([e2e.to_np(e2e.get_at(r, "occupation", t)).astype(float) for r in trs]) for t in times}
        out = []
        for t in times:
            k, _off = e2e.time_index(snap, t)
            p = ref.occupations_rho(rhos[k], n, d)
            a = arr[t]
            cnt["per_trajectory_checks"] += a.shape[0]
            if a.min() < -1e-7 or a.max() > 1 + 1e-7:
                viol.append({"key": "C17:trajectory-occupation-outside-[0,1]", "msg": f"{fp}: [{a.min()}, {a.max()}]"})
            m = a.mean(axis=0)
            se = np.maximum(a.std(axis=0, ddof=1) / np.sqrt(len(a)), 0.5 * np.sqrt(np.clip(p * (1 - p), 1e-6, None) / len(a)))
            z = (np.abs(m - p) - 3e-3).clip(min=0) / se
            for j in range(n):
                cnt["z_tests"] += 1
                out.append((float(z[j]), t, j, float(m[j]), float(p[j]), float(se[j])))
        return out

    z1 = ztests(trajs, 1)
    worst["max_z_stage1"] = max(z for z, *_ in z1)
    susp = [x for x in z1 if x[0] > ZCUT]
    if susp:
        try:
            trajs2, _snap2, jumps2 = _run(seq, cfgf, 4 * K, case["seed"] + 104729)
            cnt["trajectories"] += len(trajs2)
            cnt["jumps_observed"] += jumps2["n"]
            z2 = ztests(trajs2, 2)
            worst["max_z_stage2"] = max(z for z, *_ in z2)
            bad2 = {(t, j): (z, m, p, se) for z, t, j, m, p, se in z2 if z > ZCUT}
            for z, t, j, m, p, se in susp:
                if (t, j) in bad2 and np.sign(m - p) == np.sign(bad2[(t, j)][1] - bad2[(t, j)][2]):
                    z_2, m_2, p_2, se_2 = bad2[(t, j)]
                    viol.append({"key": f"C17:trajectory-average-differs-from-master-equation:{kind}",
                                 "msg": f"{fp}: atom {j} t={t}: mean {m:.4f} vs master equation {p:.4f} (z={z:.1f}, K={K}); again with {4*K} fresh trajectories: mean {m_2:.4f} (z={z_2:.1f})"})
                    break
        except Exception as e:
            viol.append({"key": f"C17:second-stage-run-raises:{type(e).__name__}", "msg": f"{fp}: {e}"[:300]})
    k_end, _ = e2e.time_index(snap, 1.0)
    noise_matters = float(np.abs(ref.occupations_rho(rhos[k_end], n, d) - ref.occupations(clean[k_end], n, d)).max())
    for k in range(len(rhos)):
        noise_matters = max(noise_matters, float(np.abs(ref.occupations_rho(rhos[k], n, d) - ref.occupations(clean[k], n, d)).max()))
    return {"fp": fp, "nontrivial": bool(noise_matters > 0.02 and jumps["n"] > 0), "violations": viol[:4], "counters": cnt, "max": worst,
            "sample": {"case": fp, "spec": spec, "jumps": jumps["n"], "max_z": worst["max_z_stage1"], "noise_effect_on_occupation": noise_matters}}
