"""C08 — Lanczos ground-state search is variational and meets its residual.

Monitor: postcondition on the real `krylov_energy_minimization_impl` and on the raise of the public
`krylov_energy_minimization`; oracle = dense numpy (`eigvalsh`, H @ psi).
"""
import numpy as np

ID = "C08"
LEVEL = "exploration"
ENGINE = "unit-contracts"
TECHNIQUE = "runtime postcondition on krylov_energy_minimization(_impl) vs dense eigvalsh / true residual"
LEVEL_TEXT = ("Exploration: on every call: unit norm, energy equals the returned vector's Rayleigh quotient, energy >= exact "
              "lowest eigenvalue, converged-without-breakdown => true residual |H psi - E psi| below the requested tolerance, "
              "restart_count <= max_restarts, public entry raises iff neither flag; Hermitian operators dim 1..128 with gapped / "
              "degenerate / clustered / wide spectra and adversarial start vectors.")
LEVEL_NOTE = ("Trusts numpy.linalg.eigvalsh. Residual bound carries slack tol*(1+1e-3)+1e-10*|H|*sqrt(iterations) because the code "
              "tests the Lanczos estimate beta_j|y_j| (measured true residual/tolerance reaches 0.99).")
RULE = ("Hermitian H of dim 1..128, spectra {gapped, degenerate ground space, clustered, wide range, random}, start vectors {random, "
        "nearly orthogonal to the ground state (1e-8 overlap), inside an invariant subspace, eigenvector}, residual tol 1e-4..1e-12, "
        "krylov dim 2..100, restarts 0..20. distinct=(spectrum,start,dim,tol exp,kdim,restarts); non-trivial = dim>=2 and |H|>1e-3")
ASSUMPTIONS = [
    "start vector norm in [1e-3, 1e3] (a ValueError 'zero norm' for smaller ones is a documented rejection)",
    "Rayleigh-quotient and variational checks allow 1e-9*(1+|H|_2) for rounding / loss of Lanczos orthogonality",
]
REQUIRED = ["impl_calls", "converged_no_breakdown_checked", "happy_breakdown_seen", "not_converged_seen", "public_calls"]
BATCH = 12
SPECTRA = ["gapped", "degenerate", "clustered", "wide", "random"]
STARTS = ["random", "orth-ground", "invariant", "eigvec"]


def gen_cases(tier, seed):
    rng = np.random.default_rng(seed)
    reps = 3 if tier == "quick" else 40
    return [{"spec": s, "start": st, "seed": int(rng.integers(1 << 30)), "count": BATCH}
            for _ in range(reps) for s in SPECTRA for st in STARTS]


def _spectrum(rng, d, spec):
    if spec == "gapped":
        ev = np.concatenate([[-rng.uniform(1, 5)], rng.uniform(0, 3, size=d - 1)])
    elif spec == "degenerate":
        k = int(rng.integers(1, max(2, min(4, d))))
        ev = np.concatenate([np.full(k, -1.0), rng.uniform(-0.5, 3, size=d - k)])
    elif spec == "clustered":
        ev = -1.0 + 10 ** rng.uniform(-9, -3, size=d) * np.arange(d)
        ev[d // 2:] += rng.uniform(0.5, 2)
    elif spec == "wide":
        ev = rng.normal(size=d) * 10 ** rng.uniform(-3, 3, size=d)
    else:
        ev = rng.normal(size=d)
    return np.sort(ev)[:d] * 10 ** rng.uniform(-1, 1.5)


def run_case(case):
    import importlib
    import torch

    km = importlib.import_module("emu_base.math.krylov_energy_min")
    rng = np.random.default_rng(case["seed"])
    cnt = {k: 0 for k in REQUIRED}
    cnt["rejected"] = 0
    viol, fps = [], []
    worst = {"true_resid_over_tol": 0.0, "rayleigh_dev_over_allow": 0.0, "below_ground_over_allow": 0.0}
    sample = None
    for _ in range(case["count"]):
        u = rng.random()
        d = int(rng.integers(1, 4)) if u < 0.12 else int(rng.integers(4, 33)) if u < 0.7 else int(rng.integers(33, 129))
        ev = _spectrum(rng, d, case["spec"])
        q, _ = np.linalg.qr(rng.normal(size=(d, d)) + 1j * rng.normal(size=(d, d)))
        H = (q * ev) @ q.conj().T
        H = 0.5 * (H + H.conj().T)
        lam = np.linalg.eigvalsh(H)
        h2 = float(max(abs(lam[0]), abs(lam[-1])))
        st = case["start"]
        if st == "orth-ground" and d >= 2:
            v = q[:, 1:] @ (rng.normal(size=d - 1) + 1j * rng.normal(size=d - 1))
            v = v / np.linalg.norm(v) + 1e-8 * q[:, 0]
        elif st == "invariant" and d >= 3:
            k = int(rng.integers(1, d))
            idx = rng.choice(d, size=k, replace=False)
            v = q[:, idx] @ (rng.normal(size=k) + 1j * rng.normal(size=k))
        elif st == "eigvec":
            v = q[:, int(rng.integers(d))].copy()
        else:
            v = rng.normal(size=d) + 1j * rng.normal(size=d)
        v = v / np.linalg.norm(v) * 10 ** rng.uniform(-3, 3)
        rtol = float(10 ** rng.uniform(-12, -4))
        ntol = float(10 ** rng.uniform(-14, -8))
        kdim = int(rng.integers(2, 8)) if rng.random() < 0.3 else int(rng.integers(8, 101))
        restarts = int(rng.integers(0, 21))
        Ht = torch.tensor(H, dtype=torch.complex128)
        shape = (d // 4, 2, 2) if d % 4 == 0 and rng.random() < 0.4 else (d,)

        def op(x, Ht=Ht, shape=shape):
            return (Ht @ x.reshape(-1)).reshape(shape)

        vt = torch.tensor(v, dtype=torch.complex128).reshape(shape)
        desc = f"{case['spec']}/{st} d={d} rtol={rtol:.1e} ntol={ntol:.1e} kdim={kdim} restarts={restarts} |H|={h2:.3g}"
        try:
            r = km.krylov_energy_minimization_impl(op, vt.clone(), residual_tolerance=rtol, norm_tolerance=ntol,
                                                   max_krylov_dim=kdim, max_restarts=restarts)
        except ValueError as e:
            cnt["impl_calls"] += 1
            viol.append({"key": "C08:impl-raises:ValueError", "msg": f"{desc}: {e}"[:300]})
            continue
        except Exception as e:
            cnt["impl_calls"] += 1
            viol.append({"key": f"C08:impl-raises:{type(e).__name__}", "msg": f"{desc}: {e}"[:300]})
            continue
        cnt["impl_calls"] += 1
        psi = r.ground_state.detach().numpy().reshape(-1)
        E = float(r.ground_energy)
        allow = 1e-9 * (1 + h2)
        nrm = float(np.linalg.norm(psi))
        if abs(nrm - 1) > 1e-10:
            viol.append({"key": "C08:returned-vector-not-unit-norm", "msg": f"{desc}: norm {nrm!r}"})
        rq = float(np.real(np.vdot(psi, H @ psi)) / nrm**2)
        worst["rayleigh_dev_over_allow"] = max(worst["rayleigh_dev_over_allow"], abs(E - rq) / allow)
        if abs(E - rq) > allow:
            viol.append({"key": "C08:energy-is-not-rayleigh-quotient", "msg": f"{desc}: E={E!r} <psi|H|psi>={rq!r} iterations={r.iteration_count}"})
        if lam[0] - E > 0:
            worst["below_ground_over_allow"] = max(worst["below_ground_over_allow"], (lam[0] - E) / allow)
        if E < lam[0] - allow:
            viol.append({"key": "C08:energy-below-exact-ground-energy", "msg": f"{desc}: E={E!r} lambda_min={lam[0]!r}"})
        if r.restart_count > restarts:
            viol.append({"key": "C08:restart-count-exceeds-max", "msg": f"{desc}: {r.restart_count}"})
        if r.happy_breakdown:
            cnt["happy_breakdown_seen"] += 1
        if r.converged and not r.happy_breakdown:
            cnt["converged_no_breakdown_checked"] += 1
            res = float(np.linalg.norm(H @ psi - E * psi))
            bound = rtol * (1 + 1e-3) + 1e-10 * h2 * np.sqrt(max(1, r.iteration_count))
            worst["true_resid_over_tol"] = max(worst["true_resid_over_tol"], res / bound)
            if not res < bound:
                viol.append({"key": "C08:converged-but-residual-above-tolerance",
                             "msg": f"{desc}: |H psi - E psi|={res:.3e} bound={bound:.3e} reported={float(r.residual_norm):.3e} iterations={r.iteration_count}"})
        if not r.converged and not r.happy_breakdown:
            cnt["not_converged_seen"] += 1
        # public wrapper (no max_restarts argument: default 100) -> separate call, same contract on the raise
        try:
            r2 = km.krylov_energy_minimization_impl(op, vt.clone(), residual_tolerance=rtol, norm_tolerance=ntol, max_krylov_dim=kdim)
            raised = False
            try:
                gs, en = km.krylov_energy_minimization(op, vt.clone(), norm_tolerance=ntol, residual_tolerance=rtol, max_krylov_dim=kdim)
            except RecursionError:
                raised = True
            cnt["public_calls"] += 1
            ok2 = bool(r2.converged or r2.happy_breakdown)
            if raised == ok2:
                viol.append({"key": "C08:public-entry-dishonest" + (":returned-unconverged" if not raised else ":raised-although-converged"), "msg": desc})
            elif not raised:
                p2 = gs.detach().numpy().reshape(-1)
                if abs(np.linalg.norm(p2) - 1) > 1e-10 or abs(en - float(np.real(np.vdot(p2, H @ p2)))) > allow or en < lam[0] - allow:
                    viol.append({"key": "C08:public-result-not-variational", "msg": f"{desc}: E={en!r} lambda_min={lam[0]!r}"})
        except Exception as e:
            viol.append({"key": f"C08:public-raises-other:{type(e).__name__}", "msg": f"{desc}: {e}"[:300]})
        if d >= 2 and h2 > 1e-3:
            fps.append(f"{case['spec']}:{st}:{d}:{int(np.floor(np.log10(rtol)))}:{kdim}:{restarts}")
        if sample is None and d <= 4:
            sample = {"spectrum": case["spec"], "start": st, "dim": d, "residual_tol": rtol, "kdim": kdim, "max_restarts": restarts,
                      "E": E, "lambda_min": float(lam[0]), "converged": bool(r.converged), "happy_breakdown": bool(r.happy_breakdown),
                      "iterations": int(r.iteration_count), "restarts_used": int(r.restart_count)}
    return {"fp": None, "nontrivial": False, "fps": fps, "n_eval": case["count"], "violations": viol[:6], "counters": cnt,
            "max": worst, "sample": sample if case["idx"] % 5 == 0 else None}
