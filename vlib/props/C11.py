"""C11 — MPS/MPO operations are faithful to their dense counterparts.

Monitor: dense-shadow driver. Every MPS/MPO is shadowed by its dense vector/matrix (contracted by the harness);
every public operation is compared with the same operation on the shadows, and operands of operations that
are not documented as in-place are re-contracted afterwards and must be unchanged.
"""
import numpy as np

from vlib import ref, tn

ID = "C11"
LEVEL = "exploration"
ENGINE = "unit-contracts"
TECHNIQUE = "dense-shadow differential monitor over every public MPS/MPO operation, incl. operand-unchanged checks and construction from Pulser's abstract representations"
LEVEL_TEXT = ("Exploration: random MPS/MPO (2-8 sites, bonds 1-16, qubits and qutrits, all three eigenstate bases, declared centres anywhere "
              "or none, real and complex) through add, scale, inner, norm, overlap, MPO.apply_to, MPO@MPO, MPO+MPO, scalar*MPO, expect, "
              "expect_batch, correlation matrix, entanglement entropy, from_state_amplitudes, from_operator_repr; each result compared with "
              "the dense computation; operands re-contracted afterwards.")
LEVEL_NOTE = "Tolerance: (number of truncating sweeps in the op) * sqrt(n) * precision * (1+|.|) + 1e-10*(1+|.|); precision 1e-8..1e-12 in this driver so that truncation does not dominate."
RULE = ("(n, d, basis, centre position, real/complex, op); distinct = that tuple + hash; non-trivial = operands have bond dimension > 1")
ASSUMPTIONS = ["dense contraction by the harness (numpy) defines the represented vector/matrix",
               "get_correlation_matrix(O): diagonal entries are <O_i> (convention asserted by the repo's test_correlation_matrix_random), off-diagonal <O_i O_j>",
               "operator representations go through Pulser's public validated entry points (from_operator_repr/from_state_amplitudes)"]
REQUIRED = ["ops_checked", "operand_unchanged_checks", "from_amplitudes_checked", "from_operator_repr_checked", "nonzero_centre_cases"]
BATCH = 6


def gen_cases(tier, seed):
    rng = np.random.default_rng(seed)
    reps = 40 if tier == "quick" else 600
    return [{"seed": int(rng.integers(1 << 30)), "count": BATCH} for _ in range(reps)]


def _qudit_op(rng, basis_states, nested):
    """random QuditOp: dict 'ab' -> coeff over basis projectors |a><b|; optionally referring to a user symbol"""
    keys = [a + b for a in basis_states for b in basis_states]
    sel = rng.choice(len(keys), size=int(rng.integers(1, min(4, len(keys)) + 1)), replace=False)
    return {keys[int(k)]: complex(rng.normal(), rng.normal()) if rng.random() < 0.6 else 1.0 for k in sel}


def _dense_qudit(op, order):
    """dense d x d matrix of a QuditOp in the emulator's level order `order` (list of state chars)"""
    d = len(order)
    m = np.zeros((d, d), dtype=complex)
    for k, c in op.items():
        m[order.index(k[0]), order.index(k[1])] += c
    return m


def run_case(case):
    import torch
    from emu_mps import MPS, MPO
    from emu_mps.mps import inner as mps_inner

    rng = np.random.default_rng(case["seed"])
    cnt = {k: 0 for k in REQUIRED}
    viol, fps = [], []
    worst = {"rel_err_over_tol": 0.0}
    sample = None

    def chk(name, got, want, tol, desc):
        cnt["ops_checked"] += 1
        got, want = np.asarray(got), np.asarray(want)
        if got.shape != want.shape:
            viol.append({"key": f"C11:{name}-shape-differs", "msg": f"{desc}: {got.shape} vs {want.shape}"})
            return
        scale = 1.0 + float(np.abs(want).max()) if want.size else 1.0
        e = float(np.abs(got - want).max()) / scale if want.size else 0.0
        worst["rel_err_over_tol"] = max(worst["rel_err_over_tol"], e / tol)
        if not e <= tol:
            viol.append({"key": f"C11:{name}-differs-from-dense", "msg": f"{desc}: rel.err {e:.3e} (tol {tol:.1e})"})

    def unchanged(name, obj, shadow, desc, is_op=False):
        cnt["operand_unchanged_checks"] += 1
        now = tn.dense_op(obj) if is_op else tn.dense(obj)
        if np.abs(now - shadow).max() > 1e-10 * (1 + np.abs(shadow).max()):
            viol.append({"key": f"C11:{name}-changed-its-operand", "msg": desc})

    for _ in range(case["count"]):
        bname = str(rng.choice(["rg", "01", "rgx"]))
        eig = tn.BASES[bname]
        d = len(eig)
        n = int(rng.integers(2, 9)) if d == 2 else int(rng.integers(2, 7))
        chi = int(rng.choice([1, 2, 3, 5, 8, 16]))
        prec = float(10 ** rng.uniform(-12, -8))
        real = bool(rng.random() < 0.2)
        c1 = None if rng.random() < 0.3 else int(rng.integers(n))
        a = tn.rand_mps(rng, n, d, chi, basis=eig, precision=prec, real=real)
        b = tn.rand_mps(rng, n, d, max(1, chi // 2), basis=eig, precision=prec, real=real)
        if c1 is not None:
            a.orthogonalize(c1)
            if c1 > 0:
                cnt["nonzero_centre_cases"] += 1
        va, vb = tn.dense(a), tn.dense(b)
        A = tn.rand_mpo(rng, n, d, int(rng.choice([1, 2, 4])))
        B = tn.rand_mpo(rng, n, d, int(rng.choice([1, 2, 3])))
        mA, mB = tn.dense_op(A), tn.dense_op(B)
        desc = f"basis={bname} n={n} d={d} chi<={chi} centre={c1} real={real}"
        tol0 = 1e-10
        ttol = np.sqrt(n) * prec * 10 + 1e-10
        try:
            # ---- scalar results
            chk("inner", a.inner(b).numpy(), np.vdot(va, vb), tol0 * (1 + np.linalg.norm(va) * np.linalg.norm(vb)), desc)
            chk("inner-function", mps_inner(a, b).numpy(), np.vdot(va, vb), tol0 * (1 + np.linalg.norm(va) * np.linalg.norm(vb)), desc)
            chk("overlap", a.overlap(b).numpy(), abs(np.vdot(va, vb)) ** 2, tol0 * (1 + (np.linalg.norm(va) * np.linalg.norm(vb)) ** 2), desc)
            unchanged("inner/overlap", a, va, desc)
            unchanged("inner/overlap", b, vb, desc)
            chk("norm", float(a.norm()), np.linalg.norm(va), tol0, desc)
            chk("norm-without-centre", float(b.norm()), np.linalg.norm(vb), tol0, desc)
            if np.abs(tn.dense(b) - vb).max() > 1e-10 * (1 + np.abs(vb).max()):
                viol.append({"key": "C11:norm-changed-the-represented-state", "msg": desc})
            # ---- linear algebra on states
            z = complex(rng.normal(), rng.normal())
            s = a + b
            chk("add", tn.dense(s), va + vb, ttol, desc)
            unchanged("add", a, va, desc)
            unchanged("add", b, vb, desc)
            sc = z * a
            chk("scale", tn.dense(sc), z * va, tol0, desc)
            unchanged("scale", a, va, desc)
            # ---- operators
            r = A.apply_to(a)
            chk("apply_to", tn.dense(r), mA @ va, ttol * (1 + np.linalg.norm(mA, 2)), desc)
            unchanged("apply_to", a, va, desc)
            unchanged("apply_to", A, mA, desc, is_op=True)
            # the RESULT is an MPS like any other: what it declares about itself must be true, or every centre-dependent operation on it is wrong
            ce = tn.canonical_errors(r)
            cnt["ops_checked"] += 1
            if ce is not None and max(ce) > 1e-8 * (1 + np.linalg.norm(mA @ va)):
                viol.append({"key": "C11:apply_to-result-not-canonical-at-declared-centre", "msg": f"{desc}: centre {r.orthogonality_center} dev {max(ce):.2e}"})
            chk("apply_to-then-norm", float(r.norm()), np.linalg.norm(tn.dense(r)), tol0 * 10, desc)
            if np.linalg.norm(tn.dense(r)) > 1e-6:
                rn = (1.0 / float(np.linalg.norm(tn.dense(r)))) * r
                vr = tn.dense(rn)
                one = torch.zeros(d, d, dtype=torch.complex128)
                one[1, 1] = 1.0
                occ_want = np.array([np.real(np.vdot(vr, tn.site_op(one.numpy(), i, n, d) @ vr)) for i in range(n)]) if n <= 6 else None
                if occ_want is not None:
                    chk("apply_to-then-expect_batch", rn.expect_batch(torch.stack([one])).real.numpy().reshape(-1), occ_want, tol0 * 100, desc)
            if r.eigenstates != a.eigenstates:
                viol.append({"key": "C11:apply_to-loses-eigenstates", "msg": desc})
            chk("mpo-expect", A.expect(a).numpy(), np.vdot(va, mA @ va), tol0 * (1 + np.linalg.norm(mA, 2) * np.linalg.norm(va) ** 2), desc)
            unchanged("expect", a, va, desc)
            AB = A @ B
            chk("mpo-matmul", tn.dense_op(AB), mA @ mB, 1e-5 * np.sqrt(n) * 10, desc)  # MPO@MPO truncates at the default precision 1e-5
            unchanged("matmul", A, mA, desc, is_op=True)
            unchanged("matmul", B, mB, desc, is_op=True)
            chk("mpo-add", tn.dense_op(A + B), mA + mB, tol0, desc)
            chk("mpo-scale", tn.dense_op(z * A), z * mA, tol0, desc)
            unchanged("mpo-add/scale", A, mA, desc, is_op=True)
            # ---- local quantities (on a copy with its own centre)
            ops = rng.normal(size=(3, d, d)) + 1j * rng.normal(size=(3, d, d))
            eb = a.expect_batch(torch.tensor(ops, dtype=torch.complex128)).numpy()
            want = np.array([[np.vdot(va, tn.site_op(ops[k], q, n, d) @ va) for k in range(3)] for q in range(n)])
            chk("expect_batch", eb, want, tol0 * (1 + np.linalg.norm(va) ** 2), desc + f" centre-at-call={a.orthogonality_center}")
            unchanged("expect_batch", a, va, desc)
            cm = a.get_correlation_matrix().numpy()
            nop = np.zeros((d, d))
            nop[1, 1] = 1
            wantc = np.array([[np.real(np.vdot(va, tn.site_op(nop, i, n, d) @ (tn.site_op(nop, j, n, d) @ va))) for j in range(n)] for i in range(n)])
            chk("correlation-matrix", cm, wantc, tol0 * (1 + np.linalg.norm(va) ** 2), desc)
            unchanged("get_correlation_matrix", a, va, desc)
            o2 = rng.normal(size=(d, d)) + (0 if rng.random() < 0.3 else 1j * rng.normal(size=(d, d)))
            o2 = o2 + o2.conj().T
            cm2 = a.get_correlation_matrix(torch.tensor(o2, dtype=torch.complex128)).numpy()
            # convention pinned by the repository's own test: the diagonal entry is <O_i> (the "pair" {i,i} is the single site i)
            want2 = np.array([[np.real(np.vdot(va, tn.site_op(o2, i, n, d) @ (tn.site_op(o2, j, n, d) @ va))) if i != j
                               else np.real(np.vdot(va, tn.site_op(o2, i, n, d) @ va)) for j in range(n)] for i in range(n)])
            chk("correlation-matrix-custom-operator", cm2, want2, tol0 * (1 + np.linalg.norm(va) ** 2 * np.linalg.norm(o2, 2) ** 2), desc)
            cut = int(rng.integers(n - 1))
            chk("entanglement-entropy", float(a.entanglement_entropy(cut)), tn.entropy_dense(va, cut, n, d), 1e-9 * (1 + np.linalg.norm(va) ** 2 * (1 + abs(np.log(np.linalg.norm(va) ** 2)))), desc + f" cut={cut}")
            unchanged("entanglement_entropy", a, va, desc)
        except Exception as e:
            import traceback

            fr = [f"{f.name}" for f in traceback.extract_tb(e.__traceback__) if "/emu_" in f.filename]
            viol.append({"key": f"C11:operation-raises:{type(e).__name__}:{fr[-1] if fr else '?'}", "msg": f"{desc}: {e}"[:300]})
        # ---- construction from Pulser's abstract representations
        try:
            order = ["g", "r", "x"][:d] if bname != "01" else ["0", "1"]
            one = "r" if bname != "01" else "1"
            k = int(rng.integers(1, min(2 ** n, 6) + 1))
            amps = {}
            while len(amps) < k:
                amps["".join(str(rng.choice(order)) for _ in range(n))] = complex(rng.normal(), rng.normal())
            st = MPS.from_state_amplitudes(eigenstates=eig, amplitudes=amps)
            cnt["from_amplitudes_checked"] += 1
            v = np.zeros(d ** n, dtype=complex)
            for bs, amp in amps.items():
                idx = 0
                for ch in bs:
                    idx = idx * d + order.index(ch)
                v[idx] += amp
            v /= np.linalg.norm(v)
            chk("from_state_amplitudes", tn.dense(st), v, 1e-4, desc + f" amplitudes={list(amps)[:3]}")  # default precision 1e-5 per term
            # operator repr: sum of tensor products of QuditOps on disjoint target sets
            terms = []
            dense_total = np.zeros((d ** n, d ** n), dtype=complex)
            for _t in range(int(rng.integers(1, 4))):
                coeff = complex(rng.normal(), rng.normal())
                targets = list(rng.permutation(n))
                pieces = []
                mats = [np.eye(d, dtype=complex) for _ in range(n)]
                for _p in range(int(rng.integers(1, min(3, n) + 1))):
                    size = int(rng.integers(1, 3))
                    tg = set(int(x) for x in targets[:size])
                    targets = targets[size:]
                    if not tg:
                        break
                    qo = _qudit_op(rng, order, False)
                    pieces.append((qo, tg))
                    m = _dense_qudit(qo, order)
                    for q in tg:
                        mats[q] = m
                terms.append((coeff, pieces))
                full = np.eye(1, dtype=complex)
                for m in mats:
                    full = np.kron(full, m)
                dense_total += coeff * full
            op = MPO.from_operator_repr(eigenstates=eig, n_qudits=n, operations=terms)
            cnt["from_operator_repr_checked"] += 1
            chk("from_operator_repr", tn.dense_op(op), dense_total, 1e-10, desc + f" terms={len(terms)}")
        except Exception as e:
            import traceback

            fr = [f"{f.name}" for f in traceback.extract_tb(e.__traceback__) if "/emu_" in f.filename]
            viol.append({"key": f"C11:construction-raises:{type(e).__name__}:{fr[-1] if fr else 'pulser'}", "msg": f"{desc}: {e}"[:300]})
        if chi > 1:
            fps.append(f"{bname}:{n}:{chi}:{c1}:{real}:{hash(va.tobytes()) & 0xffff:x}")
        if sample is None:
            sample = {"basis": bname, "n": n, "max_bond": chi, "centre": c1, "ops": ["inner", "overlap", "norm", "add", "scale", "apply_to", "expect", "matmul", "mpo add/scale",
                      "expect_batch", "correlation", "entropy", "from_state_amplitudes", "from_operator_repr"]}
    return {"fp": None, "nontrivial": False, "fps": fps, "n_eval": case["count"], "violations": viol[:8], "counters": cnt, "max": worst,
            "sample": sample if case["idx"] % 10 == 0 else None}
