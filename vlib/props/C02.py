"""C02 — emu-mps TDVP runs reproduce the Pulser Hamiltonian dynamics.

Monitor: boundary recorder on `MPSBackend._run_from_sequence_data` (input `SequenceData`, output `Results`) + dense
reference (exact evolution of the recorded piecewise-constant Hamiltonian); in-situ invariants evaluated after
every `progress()` (MPS well-formedness: bond chain, declared centre canonical, bonds <= max_bond_dim) and on the
MPO the solver actually uses (contracted and compared with the dense Hamiltonian of the current step).
"""
import numpy as np

from vlib import e2e, ref, seqgen, tn

ID = "C02"
LEVEL = "exploration"
ENGINE = "e2e-reference"
TECHNIQUE = "boundary recorder on MPSBackend._run_from_sequence_data + dense exact-evolution reference; in-situ MPS/MPO invariants hooked on progress()"
LEVEL_TEXT = ("Exploration: generated noiseless sequences (ising and XY, global and retargeted local drives, DMM, SLM, phases, modulation; 2-8 "
              "atoms, insertion order != spatial order) run through the real MPSBackend with optimize_qubit_ordering on and off, precision "
              "1e-5..1e-8, capped and uncapped bond dimension, several dt, interaction cutoffs and initial states; every stored occupation, "
              "correlation, energy, second moment, variance and state is compared with exact evolution of the recorded Hamiltonian.")
LEVEL_NOTE = ("QutipEmulator is not installed: the reference-emulator clause is decided as this check + C21-C23 (DESIGN 0.1). XY uses the C3 "
              "exchange term only. Capped runs only assert ranges/normalisation.")
RULE = ("seeded specs x config (reordering, precision, cap, dt, cutoff, observable profile, initial state); distinct = structural fingerprint; "
        "non-trivial = final state differs from the initial one by > 1e-3, >= 2 distinct step Hamiltonians, and (for reordering cases) the "
        "chosen permutation is not the identity")
ASSUMPTIONS = [
    "TDVP is exact only for 2 atoms; for N>=3 its projection/splitting error is not bounded by `precision` (measured on the pinned tree: up to "
    "1.2e-3 at precision 1e-8 in an XY+SLM case), so three regimes with calibrated tolerances are used: exact2 (N=2): n_steps*2*precision+50*precision+1e-7; "
    "high (N 3-6, precision<=1e-9, dt<=2, moderate energies): 2e-4 (worst observed 4e-6); default (precision 1e-5..1e-7, dt<=10): 2e-2 (worst observed 4e-4); "
    "energy scaled by (1+|H|), second moment/variance by (1+|H|)^2 plus 2e-5 (H^2 MPO truncated at 1e-5), state 5x the observable tolerance",
    "when the SLM mask ends strictly inside a step, the step may use the interaction matrix of its start or of its midpoint",
]
REQUIRED = ["runs", "values_compared", "progress_invariants_checked", "mpo_checked", "nonidentity_permutations", "bridge_runs"]
SHARD_TIMEOUT = {"quick": 1700, "thorough": 5 * 3600}


def gen_cases(tier, seed):
    rng = np.random.default_rng(seed)
    n_cases = 48 if tier == "quick" else 480
    cases = []
    for i in range(n_cases):
        basis = "xy" if i % 4 == 3 else "ising"
        regime = ["exact2", "high", "high", "default", "high", "default", "exact2", "capped"][(i // 4 + i) % 8] if i % 8 != 7 else "high"
        if regime == "exact2":
            n, prec, dt, cap = 2, float(10.0 ** float(rng.choice([-5, -7, -9]))), float(rng.choice([1, 2, 5, 10])), 1024
        elif regime == "high":
            n, prec, dt, cap = int(rng.integers(3, 7)), float(10.0 ** float(rng.choice([-9, -10]))), float(rng.choice([1, 2])), 1024
        elif regime == "default":
            n, prec, dt, cap = int(rng.integers(3, 9)), float(10.0 ** float(rng.choice([-5, -6, -7]))), float(rng.choice([2, 4, 10])), 1024
        else:
            n, prec, dt, cap = int(rng.integers(4, 9)), 1e-5, float(rng.choice([2, 10])), int(rng.choice([1, 2, 3]))
        if i % 12 == 5:
            regime, basis, n, prec, dt, cap = "bridge", "ising", int(rng.integers(3, 6)), float(10.0 ** float(rng.choice([-5, -6]))), 10.0, 1024
        cases.append({"seed": int(rng.integers(1 << 30)), "n": n, "basis": basis, "regime": regime,
                      "local": bool(basis == "ising" and rng.random() < 0.45), "dmm": bool(basis == "ising" and rng.random() < 0.25),
                      "slm": bool(rng.random() < 0.2), "modulation": bool(rng.random() < 0.15),
                      "reorder": bool(rng.random() < 0.6), "profile": "perm" if rng.random() < 0.65 else "state",
                      "precision": prec, "cap": cap, "dt": dt, "init": bool(rng.random() < 0.2)})
    return cases


def build_run(case):
    rng = np.random.default_rng(case["seed"])
    if case["regime"] == "bridge":
        # driven atoms that interact across an idle atom of the chain (local addressing of every other atom, or an SLM mask on the atoms in between)
        n = case["n"]
        d = float(rng.uniform(4.5, 5.5))
        T = int(rng.choice([200, 300, 400]))
        amp = float(rng.uniform(3.0, 6.0))
        spec = {"basis": "ising", "device": "mock", "atoms": [[f"q{i}", float(i * d), 0.0] for i in range(n)], "ops": []}
        if rng.random() < 0.5:
            spec["has_global"] = False
            spec["locals"] = {f"l{i}": f"q{i}" for i in range(0, n, 2)}
            for j, i in enumerate(range(0, n, 2)):
                spec["ops"].append({"op": "pulse", "ch": f"l{i}", "amp": ["const", T, amp], "det": ["const", T, 0.0], "phase": 0.0, "protocol": "no-delay"})
        else:
            spec["has_global"] = True
            spec["slm"] = [f"q{i}" for i in range(1, n, 2)]
            spec["ops"].append({"op": "pulse", "ch": "g", "amp": ["const", T, amp], "det": ["const", T, 0.0], "phase": 0.0})
        case.update(local=bool(spec.get("locals")), dmm=False, slm=bool(spec.get("slm")), modulation=False, init=False)
        return rng, spec
    # moderate energy scales (U <= ~25 rad/us, Omega <= 6, |delta| <= 10) so that E*dt <= ~0.1 for dt <= 4 ns: TDVP's own
    # time-step error (it is a splitting integrator once interactions are not nearest-neighbour) stays far below the tolerances
    spec = seqgen.random_spec(rng, n=case["n"], basis=case["basis"], dmin=7.8 if case["basis"] == "ising" else 11.5, spread=0.6,
                              local=case["local"], dmm=case["dmm"], slm=case["slm"], modulation=case["modulation"], max_dur=120, min_dur=20,
                              n_pulses=int(rng.integers(1, 4)), shuffle_ids=True, amp_max=6.0, det_max=10.0)
    if case["basis"] == "xy" and spec.get("mag") is None:
        spec["mag"] = [0.0, 0.0, float(rng.uniform(1, 30))]
    return rng, spec


class ProgressMonitor:
    """after every progress(): MPS well-formedness; every `stride` calls: the MPO equals the dense Hamiltonian of the step"""

    def __init__(self, stride=7):
        self.n = 0
        self.mpo = 0
        self.viol = []
        self.nonid = 0
        self.stride = stride
        self.bonds = {}  # timestep index -> (bond dimensions, site permutation) as first seen when that step was reached

    def install(self):
        import emu_mps.mps_backend_impl as mpi

        self._cls = mpi.MPSBackendImpl
        self._orig = mpi.MPSBackendImpl.progress
        mon = self

        def wrapped(impl):
            r = mon._orig(impl)
            mon.after(impl)
            return r

        mpi.MPSBackendImpl.progress = wrapped

    def remove(self):
        self._cls.progress = self._orig

    def after(self, impl):
        self.n += 1
        st = impl.state
        fs = st.factors
        cap = impl.config.max_bond_dim
        if self.n == 1 and not np.array_equal(impl.qubit_permutation.numpy(), np.arange(len(impl.qubit_permutation))):
            self.nonid += 1
        if fs[0].shape[0] != 1 or fs[-1].shape[2] != 1 or any(fs[i].shape[2] != fs[i + 1].shape[0] for i in range(len(fs) - 1)) or any(f.numel() == 0 for f in fs):
            self.viol.append(("mps-bond-chain-broken-after-progress", f"shapes {[tuple(f.shape) for f in fs]}"))
            return
        self.bonds.setdefault(int(impl._timestep_index), ([int(f.shape[2]) for f in fs[:-1]], impl.qubit_permutation.numpy().copy()))
        if max(f.shape[2] for f in fs) > cap:
            self.viol.append(("bond-exceeds-max_bond_dim-after-progress", f"{[f.shape[2] for f in fs]} cap {cap}"))
        ce = tn.canonical_errors(st)
        if ce is not None and max(ce) > 1e-8:
            self.viol.append(("state-not-canonical-around-declared-centre-after-progress", f"dev {max(ce):.2e} centre {st.orthogonality_center} sweep_index {impl._sweep_index}"))
        if self.n % self.stride == 1 and len(fs) <= 8 and not impl.is_finished():
            k = impl._timestep_index
            perm = impl.qubit_permutation.numpy()
            om, de, ph = (x[k].detach().numpy().real for x in (impl.omega, impl.delta, impl.phi))
            U = impl.current_interaction_matrix.detach().numpy().real
            kind = "rydberg" if impl.hamiltonian_type.name == "Rydberg" else "xy"
            noise = impl.lindblad_noise.detach().numpy()
            want = ref.dense_hamiltonian(om, de, ph, U, kind=kind, d=impl.dim, noise=noise if np.abs(noise).max() > 0 else None)
            got = ref.mpo_to_dense([ref.t2n(f) for f in impl.hamiltonian.factors])
            self.mpo += 1
            err = np.linalg.norm(got - want) / (1 + np.linalg.norm(want))
            if err > 1e-10:
                self.viol.append(("solver-mpo-differs-from-dense-hamiltonian-of-its-own-step-parameters", f"step {k} rel.err {err:.2e}"))


def run_case(case):
    import torch
    from emu_mps import (MPSBackend, MPSConfig, MPS, StateResult, Occupation, CorrelationMatrix, Energy, EnergySecondMoment, EnergyVariance, BitStrings)

    rng, spec = build_run(case)
    seq = seqgen.build(spec)
    n, d = case["n"], 2
    dur = seq.get_duration(include_fall_time=case["modulation"])
    times = sorted({0.0, 1.0} | {float(x) for x in rng.choice([0.25, 1 / 3, 0.5, 0.77, 0.9], size=2)})
    obs = [Occupation(evaluation_times=times), CorrelationMatrix(evaluation_times=times), Energy(evaluation_times=times),
           EnergySecondMoment(evaluation_times=times), EnergyVariance(evaluation_times=times), BitStrings(evaluation_times=[1.0], num_shots=100)]
    if case["profile"] == "state":
        obs.append(StateResult(evaluation_times=times))
    kw = {}
    psi0 = None
    ids = [a[0] for a in spec["atoms"]]
    if case["init"]:
        k = int(rng.integers(1, 4))
        amps = {}
        letters = ("g", "r") if case["basis"] == "ising" else ("0", "1")
        eig = ("r", "g") if case["basis"] == "ising" else ("0", "1")
        while len(amps) < k:
            amps["".join(str(rng.choice(letters)) for _ in range(n))] = complex(rng.normal(), rng.normal())
        if case["basis"] == "ising":
            kw["initial_state"] = MPS.from_state_amplitudes(eigenstates=eig, amplitudes=amps)
            psi0 = np.zeros(2 ** n, dtype=complex)
            for bs, a in amps.items():
                psi0[int("".join("1" if c in ("r", "1") else "0" for c in bs), 2)] += a
            psi0 /= np.linalg.norm(psi0)
    cutoff = 0.0
    cfg = MPSConfig(dt=case["dt"], precision=case["precision"], max_bond_dim=case["cap"], observables=obs, with_modulation=case["modulation"],
                    optimize_qubit_ordering=case["reorder"], log_level=e2e.quiet(), num_gpus_to_use=0, interaction_cutoff=cutoff, **kw)
    cnt = {k: 0 for k in REQUIRED}
    cnt["rejected"] = 0
    viol, worst = [], {}
    fp = case["regime"] + ":" + seqgen.describe(spec) + f":dt{case['dt']:g}:re{int(case['reorder'])}:{case['profile']}:p{case['precision']:.0e}:cap{case['cap']}:init{int(psi0 is not None)}"
    sample = {"spec": spec, "dt": case["dt"], "precision": case["precision"], "max_bond_dim": case["cap"], "optimize_qubit_ordering": case["reorder"],
              "profile": case["profile"], "evaluation_times": times}
    mon = ProgressMonitor()
    mon.install()
    try:
        with e2e.recording(MPSBackend) as rec:
            results = MPSBackend(seq, config=cfg).run()
    except Exception as e:
        import traceback

        fr = [f"{f.filename.split('/')[-1]}:{f.name}" for f in traceback.extract_tb(e.__traceback__) if "/emu_" in f.filename]
        cnt["runs"] += 1
        viol.append({"key": f"C02:run-raises:{type(e).__name__}:{fr[-1] if fr else '?'}", "msg": f"{fp}: {e}"[:400], "detail": {"spec": spec}})
        return {"fp": fp, "nontrivial": False, "violations": viol, "counters": cnt, "max": worst, "sample": sample}
    finally:
        mon.remove()
    cnt["runs"] += 1
    cnt["progress_invariants_checked"] += mon.n
    cnt["mpo_checked"] += mon.mpo
    cnt["nonidentity_permutations"] += mon.nonid
    for key, msg in mon.viol[:3]:
        viol.append({"key": "C02:" + key, "msg": f"{fp}: {msg}"})
    snap, _ = rec[0]
    if snap["omega"].shape[1] != n:
        viol.append({"key": "C02:solver-given-wrong-number-of-atoms", "msg": f"{fp}: {snap['omega'].shape}"})
        return {"fp": fp, "nontrivial": False, "violations": viol, "counters": cnt, "max": worst, "sample": sample}
    if tuple(results.atom_order) != tuple(ids):
        viol.append({"key": "C02:atom-order-differs-from-register", "msg": f"{fp}: {results.atom_order} vs {ids}"})
    nsteps = len(snap["target_times"]) - 1
    capped = case["cap"] < 2 ** (n // 2)
    prec = case["precision"]
    # TDVP is exact for 2 atoms (one two-site update per step); beyond, its projection/splitting error is not controlled by
    # `precision` alone: tolerances are calibrated on the pinned tree (worst observed 4e-6 / 4e-4, see DESIGN) with a 50x margin
    regime = case["regime"]
    if regime == "high" and (case["basis"] == "xy" or psi0 is not None or spec.get("slm")):
        # an entangled initial state, the long-range XY exchange or an SLM switch make the projection error dominate even at
        # precision 1e-10 (measured: 5e-3 on an XY run from a two-component initial state): only the loose bound is asserted
        regime = "default"
    base_tol = {"exact2": nsteps * 2 * prec + 50 * prec + 1e-7, "high": 2e-4, "default": 2e-2, "bridge": 2e-2, "capped": 1.0}[regime]
    straddle = e2e.straddles_slm(snap)
    modes = ["mid", "start"] if straddle else ["mid"]
    best = None
    for um in modes:
        states, hams = e2e.propagate(snap, psi0, umode=um)
        alt = [e2e.step_hamiltonian(snap, k, "start" if um == "mid" else "mid") for k in range(nsteps)] if straddle else None
        if capped:
            v, w, c = [], {}, {"values_compared": 0, "states_compared": 0}
        else:
            v, w, c = _compare(results, snap, states, hams, base_tol, alt)
        if best is None or len(v) < len(best[0]):
            best = (v, w, c, states, hams)
        if not v:
            break
    v, w, c, states, hams = best
    deficit = _bond_deficit(mon.bonds, states, n, prec) if v and not capped else None
    cnt["bridge_runs"] = int(case["regime"] == "bridge")
    for key, msg in v[:3]:
        if deficit and key.endswith("differs-from-exact-evolution"):
            # mechanism: the MPS keeps fewer Schmidt components across a cut than the exact state has above 10x precision
            viol.append({"key": "C02:differs-from-exact-evolution:entanglement-across-idle-atom-truncated" if case["regime"] == "bridge" else "C02:" + key + ":bond-dimension-below-exact-schmidt-rank",
                         "msg": f"{fp} steps={nsteps}: {msg}; {deficit}", "detail": {"spec": spec}})
            continue
        viol.append({"key": "C02:" + key + (":reordering-on" if case["reorder"] and mon.nonid else ""),
                     "msg": f"{fp} steps={nsteps}: {msg}", "detail": {"spec": spec}})
    worst.update(w)
    cnt["values_compared"] += c["values_compared"] + c["states_compared"]
    # ranges / normalisation hold for every run, capped or not
    for tag in ("occupation", "correlation_matrix"):
        for val in getattr(results, tag):
            a = e2e.to_np(val)
            cnt["values_compared"] += 1
            if a.min() < -1e-7 or a.max() > 1 + 1e-7:
                viol.append({"key": f"C02:{tag}-outside-[0,1]", "msg": f"{fp}: [{a.min()}, {a.max()}]"})
                break
    bs = results.get_result("bitstrings", 1.0)
    if sum(bs.values()) != 100 or any(len(s_) != n or set(s_) - {"0", "1"} for s_ in bs):
        viol.append({"key": "C02:bitstrings-malformed", "msg": f"{fp}: {dict(list(bs.items())[:3])}"})
    distinct_h = len({h.tobytes() for h in hams})
    nontrivial = bool(np.linalg.norm(states[-1] - states[0]) > 1e-3 and distinct_h >= 2 and (not case["reorder"] or mon.nonid > 0) and not capped)
    return {"fp": fp, "nontrivial": nontrivial, "violations": viol, "counters": cnt, "max": worst, "sample": sample if case["idx"] % 12 == 0 else None}


def _bond_deficit(bonds, states, n, prec):
    """first (step, cut) where the MPS bond is smaller than the number of exact Schmidt values above 10*precision, or None"""
    for k in sorted(bonds):
        if k >= len(states) or k == 0:
            continue
        b, perm = bonds[k]
        psi = states[k].reshape([2] * n).transpose([int(x) for x in perm])
        for c in range(n - 1):
            sv = np.linalg.svd(psi.reshape(2 ** (c + 1), -1), compute_uv=False)
            need = int((sv > 10 * prec).sum())
            if b[c] < need:
                return f"at step {k} the bond between sites {c}|{c + 1} is {b[c]} while the exact state has {need} Schmidt values above 10*precision (second largest {sv[1]:.2e})"
    return None


def _compare(results, snap, states, hams, base_tol, alt):
    n = snap["omega"].shape[1]
    d = snap["dim"]
    viol, worst, cnt = [], {}, {"values_compared": 0, "states_compared": 0}
    for tag in [t for t in results.get_result_tags() if t not in ("statistics", "bitstrings")]:
        for t_rel in results.get_result_times(tag):
            k, off = e2e.time_index(snap, t_rel)
            if off > 1e-6:
                continue
            val = results.get_result(tag, t_rel)
            H = hams[k - 1] if k > 0 else hams[0]
            hn = 1.0 + float(np.linalg.norm(H, 2))
            R = e2e.ref_observables(states[k], H, n, d)
            if tag == "state":
                got = e2e.state_to_dense(val)
                err = float(np.linalg.norm(got - states[k]))
                cnt["states_compared"] += 1
                worst["state_err_over_tol"] = max(worst.get("state_err_over_tol", 0.0), err / (5 * base_tol))
                worst["state_abs_err"] = max(worst.get("state_abs_err", 0.0), err)
                if err > 5 * base_tol:
                    viol.append(("state-differs-from-exact-evolution", f"t={t_rel:.4g} |dpsi|={err:.3e} tol={5*base_tol:.3e}"))
                continue
            got = e2e.to_np(val).astype(float)
            want = R[tag]
            if tag in ("occupation", "correlation_matrix"):
                scale, tol = 1.0, base_tol
            elif tag == "energy":
                scale, tol = hn, base_tol
            else:
                scale, tol = hn * hn, base_tol + 2e-5
            err = float(np.max(np.abs(got - want))) / scale
            if alt is not None and tag.startswith("energy") and err > tol:
                H2 = alt[k - 1] if k > 0 else alt[0]
                want2 = e2e.ref_observables(states[k], H2, n, d)[tag]
                err = min(err, float(np.max(np.abs(got - want2))) / scale)
            cnt["values_compared"] += 1
            worst[f"{tag}_err_over_tol"] = max(worst.get(f"{tag}_err_over_tol", 0.0), err / tol)
            worst[f"{tag}_abs_err"] = max(worst.get(f"{tag}_abs_err", 0.0), err)
            if err > tol:
                viol.append((f"{tag}-differs-from-exact-evolution", f"t={t_rel:.4g} err={err:.3e} tol={tol:.3e} got={np.round(got, 5).tolist() if got.size <= 8 else '...'} want={np.round(want, 5).tolist() if np.size(want) <= 8 else '...'}"))
    return viol, worst, cnt
