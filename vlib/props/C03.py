"""C03 — results are independent of atom labelling and internal qubit reordering.

Metamorphic monitor over whole emu-mps runs (no dense reference, so registers up to 16 atoms): the same physical
sequence is run (V1) with qubit-order optimisation off, (V0) on, (V2) with the register dictionary inserted in
another order, (V3) with renamed atoms.  Per-atom results are matched BY QUBIT ID; the permutation the backend
chose is read from the live solver (a run set without non-identity permutations is inconclusive).
`permute_results` is also contract-checked in isolation on synthetic Results.
"""
import numpy as np

from vlib import e2e, seqgen

ID = "C03"
LEVEL = "exploration"
ENGINE = "e2e-reference"
TECHNIQUE = "metamorphic run pairs (reordering on/off, register insertion order, relabelling) compared by qubit id; live read-out of the chosen permutation and a twin run on the register inserted in that very order with optimisation off (must coincide to 1e-8); isolated contract on permute_results"
LEVEL_TEXT = ("Exploration: generated sequences with per-atom drives (retargeted local channel, DMM), SLM masks, initial states, 3-16 atoms whose "
              "insertion order differs from the spatial order; occupations, correlation matrices, energies, variances, atom_order and bitstring "
              "marginals of the four variants must agree atom by atom (by id) to the high-accuracy TDVP tolerance; results must list atoms in "
              "register order.")
LEVEL_NOTE = "TDVP's own dependence on the site order is a projection-level effect that `precision` does not bound; runs use precision 1e-10, dt=2, moderate energies; numerical tolerance 2e-2, permuted-values detection at 1e-4; bitstring marginals vs occupations at 6 sigma."
RULE = "(N, channels, SLM, initial state, layout); distinct = structural fingerprint; non-trivial = the optimiser chose a non-identity permutation in V0 or V2 and some atom's occupation exceeds 1e-3"
ASSUMPTIONS = ["the optimised run and its same-chain-order twin (optimisation off) perform the same floating-point operations: they must agree to 1e-8 (observed: bit-identical)",
               "loose comparison with the unoptimised run: LOOSE, or - when exceeded and N <= 10 - the sum of the two runs' measured distances to exact evolution of their own recorded parameters",
               "TDVP's projection error depends on the site order and is not controlled by `precision` (measured 5e-3 on an XY run from an entangled state): "
               "variants may differ numerically by up to 2e-2 (occupations, correlations, energy/(1+|E|)), variance by 5%; a difference above 1e-4 "
               "whose values re-appear on other atoms (same multiset to 2e-6) is a permutation error regardless of size",
               "bitstring marginal of atom i within 6*sqrt(p(1-p)/shots)+2e-3 of its occupation"]
LOOSE, TIGHT = 2e-2, 2e-6
REQUIRED = ["variant_runs", "pairs_compared", "nonidentity_permutations", "permute_results_contract_checks", "same_order_twins_compared"]
SHARD_TIMEOUT = {"quick": 1700, "thorough": 5 * 3600}


def gen_cases(tier, seed):
    rng = np.random.default_rng(seed)
    n_cases = 32 if tier == "quick" else 500
    out = []
    for i in range(n_cases):
        u = rng.random()
        n = int(rng.integers(3, 7)) if u < 0.6 else int(rng.integers(7, 11)) if u < 0.9 else int(rng.integers(11, 17))
        out.append({"kind": "runs", "seed": int(rng.integers(1 << 30)), "n": n, "basis": "xy" if i % 5 == 4 else "ising",
                    "local": bool(rng.random() < 0.6), "dmm": bool(rng.random() < 0.3), "slm": bool(rng.random() < 0.35), "init": bool(rng.random() < 0.25 and n <= 8)})
    out += [{"kind": "contract", "seed": int(rng.integers(1 << 30))} for _ in range(8 if tier == "quick" else 100)]
    return out


def _contract(case):
    """permute_results on synthetic Results: the inverse permutation is applied to bitstrings, occupations, correlation rows+columns, atom order"""
    import torch
    from collections import Counter
    from pulser.backend import Results, Occupation, CorrelationMatrix, BitStrings
    import emu_mps.mps_backend_impl as mpi

    rng = np.random.default_rng(case["seed"])
    cnt = {k: 0 for k in REQUIRED}
    viol = []
    for _ in range(10):
        n = int(rng.integers(2, 9))
        perm = rng.permutation(n)
        ids = [f"a{i}" for i in range(n)]
        internal = [ids[p] for p in perm]  # the solver's site k holds register atom perm[k]
        res = Results(atom_order=tuple(internal), total_duration=100)
        occ_reg = rng.random(n)
        corr_reg = rng.random((n, n))
        corr_reg = corr_reg + corr_reg.T
        bits_reg = ["".join(str(rng.integers(2)) for _ in range(n)) for _ in range(3)]
        o, c, b = Occupation(), CorrelationMatrix(), BitStrings()
        as_list = bool(rng.random() < 0.5)  # after a checkpoint round trip tensors become lists
        ov = torch.tensor(occ_reg[perm])
        cv = torch.tensor(corr_reg[np.ix_(perm, perm)])
        res._store(observable=o, time=1.0, value=ov.tolist() if as_list else ov)
        res._store(observable=c, time=1.0, value=cv.tolist() if as_list else cv)
        res._store(observable=b, time=1.0, value=Counter({"".join(s[p] for p in perm): k + 1 for k, s in enumerate(bits_reg)}))

        class Impl:
            qubit_permutation = torch.tensor(perm)

        out = mpi.MPSBackendImpl.permute_results(Impl(), res, True)
        cnt["permute_results_contract_checks"] += 1
        got_occ = np.asarray(e2e.to_np(out.get_result("occupation", 1.0)), dtype=float)
        got_corr = np.asarray(e2e.to_np(out.get_result("correlation_matrix", 1.0)), dtype=float)
        got_bits = out.get_result("bitstrings", 1.0)
        desc = f"n={n} perm={perm.tolist()} lists={as_list}"
        if tuple(out.atom_order) != tuple(ids):
            viol.append({"key": "C03:permute_results-atom-order-not-register-order", "msg": f"{desc}: {out.atom_order}"})
        if np.abs(got_occ - occ_reg).max() > 1e-12:
            viol.append({"key": "C03:permute_results-occupations-wrong", "msg": desc})
        if np.abs(got_corr - corr_reg).max() > 1e-12:
            viol.append({"key": "C03:permute_results-correlations-wrong" + (":rows-only" if np.abs(got_corr - corr_reg[perm][:, :]).max() < 1e-12 else ""), "msg": desc})
        if dict(got_bits) != {s: k + 1 for k, s in enumerate(bits_reg)}:
            viol.append({"key": "C03:permute_results-bitstrings-wrong", "msg": f"{desc}: {dict(got_bits)} vs {bits_reg}"})
        out2 = mpi.MPSBackendImpl.permute_results(Impl(), out, False)
        if tuple(out2.atom_order) != tuple(ids):
            viol.append({"key": "C03:permute_results-with-permute-false-changes-results", "msg": desc})
    return {"fp": f"contract:{case['seed']}", "nontrivial": True, "violations": viol[:4], "counters": cnt, "max": {}, "sample": None}


def run_case(case):
    if case["kind"] == "contract":
        return _contract(case)
    import emu_mps
    from emu_mps import MPSBackend, MPSConfig, MPS
    from vlib.props.C02 import ProgressMonitor

    rng = np.random.default_rng(case["seed"])
    n = case["n"]
    big = n > 8
    xy = case["basis"] == "xy"
    spec = seqgen.random_spec(rng, n=n, basis=case["basis"], dmin=7.8 if not xy else 11.5, spread=0.5, local=case["local"] and not xy, dmm=case["dmm"] and not xy,
                              slm=case["slm"], max_dur=60 if big else 110, min_dur=24, n_pulses=int(rng.integers(1, 3 if big else 4)), shuffle_ids=True,
                              amp_max=3.0 if big else 6.0, det_max=6.0 if big else 10.0, layout=str(rng.choice(["random", "ring", "grid", "line"])))
    if xy and spec.get("mag") is None:
        spec["mag"] = [0.0, 0.0, 5.0]
    ids = [a[0] for a in spec["atoms"]]
    perm = [int(i) for i in rng.permutation(n)]
    mapping = {q: f"z{(7 * k + 3) % 97}_{k}" for k, q in enumerate(ids)}
    inv_map = {v: k for k, v in mapping.items()}
    variants = {"V1-opt-off": (spec, False, None), "V0-opt-on": (spec, True, None), "V2-reinserted": (seqgen.reorder(spec, perm), True, None),
                "V3-relabelled": (seqgen.relabel(spec, mapping), True, inv_map)}
    amps = None
    if case["init"]:
        letters = ("g", "r") if not xy else ("0", "1")
        amps = {}
        while len(amps) < 2:
            amps["".join(str(rng.choice(letters)) for _ in range(n))] = complex(rng.normal(), rng.normal())
    times = [0.5, 1.0]
    shots = 1000
    cnt = {k: 0 for k in REQUIRED}
    viol, worst = [], {}
    fp = seqgen.describe(spec) + f":init{int(case['init'])}"
    out = {}
    todo = list(variants.items())
    while todo:
        name, (sp, opt, back) = todo.pop(0)
        seq = seqgen.build(sp)
        order_ids = [a[0] for a in sp["atoms"]]
        kw = {}
        if amps is not None:
            # the state is given in the register order of THIS variant: rewrite the bitstrings accordingly
            base_pos = {q: k for k, q in enumerate(ids)}
            def conv(bs, order_ids=order_ids, back=back):
                return "".join(bs[base_pos[(back or {}).get(q, q)]] for q in order_ids)
            eig = ("r", "g") if not xy else ("0", "1")
            kw["initial_state"] = MPS.from_state_amplitudes(eigenstates=eig, amplitudes={conv(b): a for b, a in amps.items()})
        obs = [emu_mps.Occupation(evaluation_times=times), emu_mps.CorrelationMatrix(evaluation_times=times), emu_mps.Energy(evaluation_times=times),
               emu_mps.EnergyVariance(evaluation_times=times), emu_mps.BitStrings(evaluation_times=[1.0], num_shots=shots)]
        cfg = MPSConfig(dt=2.0, precision=1e-10, observables=obs, optimize_qubit_ordering=opt, log_level=e2e.quiet(), num_gpus_to_use=0, **kw)
        mon = ProgressMonitor(stride=10 ** 9)
        mon.install()
        try:
            with e2e.recording(MPSBackend) as rec_sd:
                res = MPSBackend(seq, config=cfg).run()
        except Exception as e:
            import traceback

            fr = [f"{f.filename.split('/')[-1]}:{f.name}" for f in traceback.extract_tb(e.__traceback__) if "/emu_" in f.filename]
            viol.append({"key": f"C03:run-raises:{name.split('-')[0]}:{type(e).__name__}:{fr[-1] if fr else '?'}", "msg": f"{fp} {name}: {e}"[:300], "detail": {"spec": sp}})
            mon.remove()
            continue
        mon.remove()
        cnt["variant_runs"] += 1
        cnt["nonidentity_permutations"] += mon.nonid
        if tuple(res.atom_order) != tuple(order_ids):
            viol.append({"key": f"C03:atom-order-differs-from-register-order:{name.split('-')[0]}", "msg": f"{fp} {name}: {res.atom_order} vs {order_ids}"})
        key = {(back or {}).get(q, q): k for k, q in enumerate(order_ids)}  # base id -> column in this variant
        cols = [key[q] for q in ids]
        chosen = next(iter(mon.bonds.values()))[1] if mon.bonds else None
        rec = {"nonid": mon.nonid, "snap": rec_sd[0][0] if rec_sd else None, "cols": cols, "perm": None if chosen is None else [int(x) for x in chosen]}
        for t in times:
            o = e2e.to_np(res.get_result("occupation", t)).astype(float)[cols]
            c = e2e.to_np(res.get_result("correlation_matrix", t)).astype(float)[np.ix_(cols, cols)]
            rec[t] = (o, c, float(res.get_result("energy", t)), float(res.get_result("energy_variance", t)))
        bs = res.get_result("bitstrings", 1.0)
        marg = np.zeros(n)
        for s_, k_ in bs.items():
            marg += k_ * np.array([int(s_[cols[i]]) for i in range(n)])
        rec["marg"] = marg / max(1, sum(bs.values()))
        rec["nshots"] = sum(bs.values())
        out[name] = rec
        # the optimised run must equal, tightly, a run on the register inserted in the order the optimiser chose, with optimisation off:
        # same chain order, same Hamiltonian, so TDVP's order-dependent error cancels and only the reordering machinery is compared
        if opt and name in ("V0-opt-on", "V2-reinserted") and rec["perm"] is not None and rec["perm"] != list(range(n)):
            twin = name.split("-")[0] + "x-same-order-opt-off"
            variants[twin] = (seqgen.reorder(sp, rec["perm"]), False, back)
            todo.append((twin, variants[twin]))
    exact_cache = {}

    def solver_error(name_, t_):
        """distance of run `name_` to exact evolution of ITS OWN recorded parameters at time t_ (occupation, correlation, energy/(1+|H|), variance/(1+|H|)^2),
        in the base atom order; None when no dense reference is affordable"""
        r_ = out[name_]
        if r_["snap"] is None or n > 10:
            return None
        if name_ not in exact_cache:
            psi0 = None
            if amps is not None:
                order_ids_ = list(r_["snap"]["qubit_ids"])
                psi0 = np.zeros(2 ** n, dtype=complex)
                base_pos_ = {q: k for k, q in enumerate(ids)}
                inv_ = variants[name_][2] or {}
                for b_, a_ in amps.items():
                    bits = "".join(b_[base_pos_[inv_.get(q, q)]] for q in order_ids_)
                    psi0[int("".join("1" if ch in ("r", "1") else "0" for ch in bits), 2)] += a_
                psi0 /= np.linalg.norm(psi0)
            exact_cache[name_] = e2e.propagate(r_["snap"], psi0, umode="mid")
        st_, hm_ = exact_cache[name_]
        k_, _off = e2e.time_index(r_["snap"], t_)
        H_ = hm_[k_ - 1] if k_ > 0 else hm_[0]
        R_ = e2e.ref_observables(st_[k_], H_, n, 2)
        cols_ = r_["cols"]
        o_, c_, e_, v_ = r_[t_]
        hn_ = 1.0 + float(np.linalg.norm(H_, 2))
        return (float(np.abs(o_ - R_["occupation"][cols_]).max()), float(np.abs(c_ - R_["correlation_matrix"][np.ix_(cols_, cols_)]).max()),
                abs(e_ - float(R_["energy"])), abs(v_ - float(R_["energy_variance"])))

    for name in ("V0-opt-on", "V2-reinserted"):
        twin = name.split("-")[0] + "x-same-order-opt-off"
        if name in out and twin in out:
            cnt["same_order_twins_compared"] = cnt.get("same_order_twins_compared", 0) + 1
            for t in times:
                o, c, e, v_ = out[name][t]
                o2, c2, e2_, v2 = out[twin][t]
                dmax = max(float(np.abs(o - o2).max()), float(np.abs(c - c2).max()), abs(e - e2_) / (1 + abs(e2_)))
                worst["twin_diff"] = max(worst.get("twin_diff", 0.0), dmax)
                if dmax > 1e-8:
                    viol.append({"key": f"C03:optimised-run-differs-from-the-same-chain-order-without-optimisation:{name.split('-')[0]}",
                                 "msg": f"{fp} {name} t={t}: max diff {dmax:.2e} (permutation {out[name]['perm']})", "detail": {"spec": spec}})
                    break
    base = out.get("V1-opt-off")
    if base is not None:
        for name, rec in out.items():
            if rec["nshots"] != shots:
                viol.append({"key": "C03:bitstring-total-differs", "msg": f"{fp} {name}: {rec['nshots']}"})
            p = rec[1.0][0]
            dev = np.abs(rec["marg"] - p) - (6 * np.sqrt(np.clip(p * (1 - p), 0, None) / shots) + 2e-3)
            if dev.max() > 0:
                i = int(np.argmax(dev))
                viol.append({"key": f"C03:bitstring-positions-do-not-follow-occupations:{name.split('-')[0]}",
                             "msg": f"{fp} {name}: atom {ids[i]} frequency {rec['marg'][i]:.3f} vs occupation {p[i]:.3f}"})
            if name == "V1-opt-off" or name.endswith("x-same-order-opt-off"):
                continue
            cnt["pairs_compared"] += 1
            for t in times:
                o, c, e, v_ = rec[t]
                ob, cb, eb, vb = base[t]
                es = 1 + abs(eb)
                d_o, d_c, d_e, d_v = float(np.abs(o - ob).max()), float(np.abs(c - cb).max()), abs(e - eb) / es, abs(v_ - vb) / (es * es)
                worst["occupation_diff_over_tol"] = max(worst.get("occupation_diff_over_tol", 0.0), d_o / LOOSE)
                worst["correlation_diff_over_tol"] = max(worst.get("correlation_diff_over_tol", 0.0), d_c / LOOSE)
                worst["energy_diff_over_tol"] = max(worst.get("energy_diff_over_tol", 0.0), d_e / LOOSE)
                tag = name.split("-")[0] + (":nonidentity-permutation" if rec["nonid"] else ":identity-permutation") + (":slm" if spec.get("slm") else "")
                # TDVP's projection error depends on the site order (measured on the pinned tree: up to 5e-3 on occupations for an XY
                # sequence from an entangled initial state, independent of `precision`): numerical differences are tolerated up to
                # LOOSE; values that re-appear on OTHER atoms (same multiset, tight tolerance) are a permutation error at any size
                same_multiset = np.abs(np.sort(o) - np.sort(ob)).max() <= TIGHT
                if (d_o > LOOSE or d_c > LOOSE or d_e > LOOSE or abs(v_ - vb) > 5e-2 * (1 + abs(vb))) and not (d_o > 50 * TIGHT and same_multiset and np.ptp(ob) > 100 * TIGHT):
                    # two runs that are each within dev of exact evolution of (equivalent) recorded parameters cannot differ by more than the sum:
                    # differences inside that bound are the solver's accuracy (C02's subject, e.g. its finding on idle atoms), not a labelling defect
                    sa, sb = solver_error(name, t), solver_error("V1-opt-off", t)
                    if sa is None or sb is None:
                        cnt["large_register_differences_not_judged"] = cnt.get("large_register_differences_not_judged", 0) + 1
                        continue
                    allow = [x + y + TIGHT for x, y in zip(sa, sb)]
                    worst["variant_solver_error"] = max(worst.get("variant_solver_error", 0.0), sa[0], sa[1])
                    worst["reference_solver_error"] = max(worst.get("reference_solver_error", 0.0), sb[0], sb[1])
                    if d_o <= allow[0] and d_c <= allow[1] and abs(e - eb) <= allow[2] and abs(v_ - vb) <= allow[3]:
                        cnt["differences_within_measured_solver_error"] = cnt.get("differences_within_measured_solver_error", 0) + 1
                        continue
                if d_o > LOOSE or (d_o > 50 * TIGHT and same_multiset and np.ptp(ob) > 100 * TIGHT):
                    i = int(np.argmax(np.abs(o - ob)))
                    viol.append({"key": f"C03:occupation-differs-between-equivalent-runs:{tag}" + (":values-permuted" if same_multiset else ""),
                                 "msg": f"{fp} {name} t={t}: atom {ids[i]} {o[i]:.6f} vs {ob[i]:.6f} (max diff {d_o:.2e})", "detail": {"spec": spec}})
                    break
                if d_c > LOOSE:
                    viol.append({"key": f"C03:correlation-differs-between-equivalent-runs:{tag}", "msg": f"{fp} {name} t={t}: max diff {d_c:.2e}", "detail": {"spec": spec}})
                    break
                if d_e > LOOSE or abs(v_ - vb) > 5e-2 * (1 + abs(vb)):
                    viol.append({"key": f"C03:energy-differs-between-equivalent-runs:{tag}", "msg": f"{fp} {name} t={t}: E {e!r} vs {eb!r}; var {v_!r} vs {vb!r}", "detail": {"spec": spec}})
                    break
    nontrivial = bool(base is not None and any(r["nonid"] for r in out.values()) and base[1.0][0].max() > 1e-3)
    return {"fp": fp, "nontrivial": nontrivial, "violations": viol[:6], "counters": cnt, "max": worst,
            "sample": {"spec": spec, "reinsertion_permutation": perm, "initial_state": None if amps is None else list(amps)} if case["idx"] % 8 == 0 else None}
