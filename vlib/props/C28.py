"""C28 — noiseless evolution conserves norm, and energy when the drive is constant.

Monitor: conservation checks on real runs, no dense reference (so registers up to 14 atoms, 20 in the thorough
tier): the state norm read at every completed time step (emu-sv: `impl.state` after `step`; emu-mps: the raw
`impl.state.norm()` inside a `timestep_complete` wrapper, because `fill_results` normalises before observables),
and energy / second moment across every window in which the recorded `SequenceData` has identical step parameters.
"""
import numpy as np

from vlib import e2e, seqgen

ID = "C28"
LEVEL = "exploration"
ENGINE = "e2e-reference"
TECHNIQUE = "runtime conservation monitors: per-step norm read from the live solver, energy/second-moment constancy over windows of identical recorded step Hamiltonians"
LEVEL_TEXT = ("Exploration: constant and piecewise-constant sequences (global drive, per-atom drives through local channel and detuning map, "
              "any interactions, random phases) with 2-14 atoms (thorough: 20) on both backends, several dt / precision / bond caps; norm "
              "deviation bounded by the accumulated solver tolerance, energy and its second moment constant over each constant window.")
LEVEL_NOTE = "Energy scale S = 1 + sum(Omega/2+|delta|) + sum|U_ij| bounds |H| without a dense matrix; TDVP conserves energy up to truncation, emu-sv up to the Krylov error."
RULE = "(backend, N, channels, #windows, dt, precision/tolerance, cap); distinct = structural fingerprint; non-trivial = at least one window of >= 3 steps with Omega > 0 and a state that moves"
ASSUMPTIONS = ["energy scale S = min(a-priori bound, 1 + max|E| + sqrt(max <H^2>)) read from the results",
               "sv: |norm-1| <= n_steps*10*tol + 1e-8; |dE| <= (n_steps*10*tol + 1e-6)*S (worst observed 3.5e-11 / 8.4e-10*S)",
               "mps: |norm-1| <= n_steps*2(N-1)*precision^2 + 1e-7; |dE| <= (100*n_steps*2(N-1)*precision^2 + 1e-6)*S (worst observed 3.9e-9 / 8.4e-9*S); second moment (2e-3 + 1e3*precision)*S^2 (H^2 MPO truncated at 1e-5 and the state at `precision`; worst observed 4.2e-3*S^2 at precision 1e-5 in the thorough tier; the property itself only names norm and energy)"]
REQUIRED = ["runs", "norm_samples", "windows_checked", "energy_pairs_compared"]
SHARD_TIMEOUT = {"quick": 1700, "thorough": 5 * 3600}


def gen_cases(tier, seed):
    rng = np.random.default_rng(seed)
    n_cases = 40 if tier == "quick" else 500
    out = []
    for i in range(n_cases):
        bk = "sv" if i % 2 else "mps"
        u = rng.random()
        nmax = 14 if tier == "quick" else 20
        n = int(rng.integers(2, 7)) if u < 0.5 else int(rng.integers(7, 12)) if u < 0.85 else int(rng.integers(12, nmax + 1))
        if bk == "sv" and n > 16:
            n = 16
        out.append({"seed": int(rng.integers(1 << 30)), "backend": bk, "n": n, "windows": int(rng.integers(1, 4)), "local": bool(rng.random() < 0.4),
                    "dmm": bool(rng.random() < 0.4), "cap": int(rng.choice([1024, 1024, 8])) if bk == "mps" else 0})
        if i % 5 == 4:  # non-interacting atoms (zero user matrix / cutoff above every coupling) with different drives per atom
            out[-1].update(imat=str(rng.choice(["zero", "cutoff-all"])), local=True, dmm=True)
    return out


def run_case(case):
    import emu_mps
    import emu_sv
    import emu_mps.mps_backend_impl as mpi
    import emu_sv.sv_backend_impl as svi

    rng = np.random.default_rng(case["seed"])
    n, bk = case["n"], case["backend"]
    big = n > 8
    ids = [f"q{i}" for i in range(n)]
    pts = seqgen.positions(rng, n, str(rng.choice(["random", "line", "ring", "grid"])), 7.0 if not big else 8.5, 0.6)
    spec = {"basis": "ising", "device": "mock", "atoms": [[ids[k], pts[k][0], pts[k][1]] for k in range(n)], "ops": [], "has_global": True}
    if case["local"]:
        spec["locals"] = {"l": str(rng.choice(ids))}
    if case["dmm"]:
        sel = rng.choice(n, size=int(rng.integers(1, n + 1)), replace=False)
        spec["dmm_map"] = {ids[int(i)]: float(round(rng.uniform(0.1, 1.0), 3)) for i in sel}
    amp_max = 2.0 if big else 7.0
    for w in range(case["windows"]):
        T = int(rng.choice([40, 80, 120])) if not big else int(rng.choice([30, 50]))
        ph = float(rng.choice([0.0, rng.uniform(0, 6.28)]))
        a_, d_ = float(rng.uniform(0.5, amp_max)), float(rng.uniform(-8, 8))
        if w > 0 and rng.random() < 0.4:  # phase-only step: same amplitude and detuning as the previous window, another phase
            prev = [op for op in spec["ops"] if op["op"] == "pulse" and op["ch"] == "g"][-1]
            a_, d_ = prev["amp"][2], prev["det"][2]
            ph = float(prev["phase"] + rng.uniform(0.3, 3.0))
        spec["ops"].append({"op": "pulse", "ch": "g", "amp": ["const", T, a_], "det": ["const", T, d_], "phase": ph})
        if case["local"] and rng.random() < 0.7:
            spec["ops"].append({"op": "pulse", "ch": "l", "amp": ["const", T, float(rng.uniform(0.5, amp_max))], "det": ["const", T, float(rng.uniform(-5, 5))],
                                "phase": ph, "protocol": "no-delay"})
        if case["dmm"] and rng.random() < 0.7:
            spec["ops"].append({"op": "dmm", "wf": ["const", T, float(-rng.uniform(0.5, 6))]})
    seq = seqgen.build(spec)
    dur = seq.get_duration()
    dt = float(rng.choice([2, 5, 10])) if not big else 10.0
    times = [float(k * dt / dur) for k in range(int(dur // dt) + 1)]
    times = sorted({min(1.0, t) for t in times} | {1.0})
    M = emu_sv if bk == "sv" else emu_mps
    obs = [M.Energy(evaluation_times=times), M.EnergySecondMoment(evaluation_times=times if n <= 10 else [1.0])]
    ikw = {}
    if case.get("imat") == "zero":
        ikw["interaction_matrix"] = np.zeros((n, n)).tolist()
    elif case.get("imat") == "cutoff-all":
        ikw["interaction_cutoff"] = 1e9
    norms = []
    cnt = {k: 0 for k in REQUIRED}
    viol, worst = [], {}
    try:
        if bk == "sv":
            ktol = float(10.0 ** float(rng.choice([-8, -10])))
            cfg = emu_sv.SVConfig(dt=dt, krylov_tolerance=ktol, observables=obs, log_level=e2e.quiet(), gpu=False, **ikw)
            o_step = svi.SVBackendImpl.step

            def step(self, idx, _o=o_step):
                r = _o(self, idx)
                norms.append(float(self.state.data.norm()))
                return r

            svi.SVBackendImpl.step = step
            try:
                with e2e.recording(emu_sv.SVBackend) as rec:
                    res = emu_sv.SVBackend(seq, config=cfg).run()
            finally:
                svi.SVBackendImpl.step = o_step
            fp = f"sv:n{n}:w{case['windows']}:dt{dt:g}:tol{ktol:.0e}:{'l' if case['local'] else ''}{'d' if case['dmm'] else ''}"
        else:
            prec = float(10.0 ** float(rng.choice([-5, -6, -8])))
            cfg = emu_mps.MPSConfig(dt=dt, precision=prec, max_bond_dim=case["cap"], observables=obs, log_level=e2e.quiet(), num_gpus_to_use=0,
                                    optimize_qubit_ordering=bool(rng.random() < 0.5), **ikw)
            o_tc = mpi.MPSBackendImpl.timestep_complete

            def tc(self, _o=o_tc):
                norms.append(float(self.state.norm()))
                return _o(self)

            mpi.MPSBackendImpl.timestep_complete = tc
            try:
                with e2e.recording(emu_mps.MPSBackend) as rec:
                    res = emu_mps.MPSBackend(seq, config=cfg).run()
            finally:
                mpi.MPSBackendImpl.timestep_complete = o_tc
            fp = f"mps:n{n}:w{case['windows']}:dt{dt:g}:p{prec:.0e}:cap{case['cap']}:{'l' if case['local'] else ''}{'d' if case['dmm'] else ''}"
    except Exception as e:
        import traceback

        fr = [f"{f.filename.split('/')[-1]}:{f.name}" for f in traceback.extract_tb(e.__traceback__) if "/emu_" in f.filename]
        cnt["runs"] += 1
        return {"fp": f"{bk}:n{n}", "nontrivial": False, "violations": [{"key": f"C28:run-raises:{type(e).__name__}:{fr[-1] if fr else '?'}", "msg": f"{bk} n={n}: {e}"[:300], "detail": {"spec": spec}}],
                "counters": cnt, "max": worst, "sample": None}
    cnt["runs"] += 1
    snap, _ = rec[0]
    tt = snap["target_times"]
    nsteps = len(tt) - 1
    S = 1.0 + float(np.abs(snap["omega"]).max(axis=0).sum() / 2 + np.abs(snap["delta"]).max(axis=0).sum() + np.abs(np.triu(snap["U_full"], 1)).sum())
    capped = bk == "mps" and case["cap"] < 1024
    # energy scale actually explored by the state: 1 + max|E| + sqrt(max <H^2>) (falls back to the a-priori bound S when no second moment was recorded)
    Es = [abs(float(x)) for x in res.energy]
    M2s = [abs(float(x)) for x in res.energy_second_moment] if "energy_second_moment" in res.get_result_tags() else []
    S = min(S, 1.0 + max(Es) + (float(np.sqrt(max(M2s))) if M2s else S))
    # calibrated on the pinned tree over several seeds: worst |norm-1| 3.5e-11 (sv) / 3.9e-9 (mps), worst energy drift / S 8.4e-10 (sv) / 8.4e-9 (mps)
    if bk == "sv":
        ntol = nsteps * 10 * ktol + 1e-8
        etol = (nsteps * 10 * ktol + 1e-6) * S
        e2tol = (nsteps * 10 * ktol + 1e-6) * S * S
    else:
        ntol = nsteps * 2 * (n - 1) * prec ** 2 + 1e-7
        etol = (nsteps * 2 * (n - 1) * prec ** 2 * 100 + 1e-6) * S
        e2tol = (2e-3 + 1e3 * prec) * S * S + etol * S  # the H^2 MPO is truncated at 1e-5 and the state at `precision`: worst observed 4.2e-3*S^2 at precision 1e-5
    cnt["norm_samples"] += len(norms)
    if len(norms) != nsteps:
        viol.append({"key": "C28:norm-not-observed-once-per-step", "msg": f"{fp}: {len(norms)} samples for {nsteps} steps"})
    if norms and not capped:
        dev = float(np.max(np.abs(np.asarray(norms) - 1.0)))
        worst["norm_dev_over_tol"] = dev / ntol
        worst[f"{bk}_norm_dev"] = dev
        if dev > ntol:
            k = int(np.argmax(np.abs(np.asarray(norms) - 1.0)))
            viol.append({"key": f"C28:norm-not-conserved:{bk}", "msg": f"{fp}: |norm-1|={dev:.3e} at step {k+1}/{nsteps} (tol {ntol:.2e})", "detail": {"spec": spec}})
    # windows of identical step parameters
    rows = [np.concatenate([snap["omega"][k], snap["delta"][k], snap["phi"][k]]).tobytes() + (b"m" if 0.5 * (tt[k] + tt[k + 1]) < snap["slm_end"] else b"f") for k in range(nsteps)]
    windows = []
    s0 = 0
    for k in range(1, nsteps + 1):
        if k == nsteps or rows[k] != rows[s0]:
            if k - s0 >= 3:
                windows.append((s0, k))  # steps s0..k-1: energies at target times s0+1..k all refer to the same H
            s0 = k
    moved = False
    etimes = {e2e.time_index(snap, t)[0]: t for t in res.get_result_times("energy")}
    for (a, b) in windows:
        ks = [k for k in range(a + 1, b + 1) if k in etimes]
        if len(ks) < 2 or capped:
            continue
        cnt["windows_checked"] += 1
        E = np.array([float(res.get_result("energy", etimes[k])) for k in ks])
        cnt["energy_pairs_compared"] += len(ks) - 1
        d = float(np.ptp(E))
        worst["energy_drift_over_tol"] = max(worst.get("energy_drift_over_tol", 0.0), d / etol)
        worst[f"{bk}_energy_drift_rel"] = max(worst.get(f"{bk}_energy_drift_rel", 0.0), d / S)
        if d > etol:
            viol.append({"key": f"C28:energy-not-conserved-over-constant-window:{bk}", "msg": f"{fp}: window steps {a}..{b-1}: drift {d:.3e} (tol {etol:.2e}, S={S:.1f}) E={np.round(E[:5], 6).tolist()}", "detail": {"spec": spec}})
        if "energy_second_moment" in res.get_result_tags():
            m2t = {e2e.time_index(snap, t)[0]: t for t in res.get_result_times("energy_second_moment")}
            k2 = [k for k in ks if k in m2t]
            if len(k2) >= 2:
                M2 = np.array([float(res.get_result("energy_second_moment", m2t[k])) for k in k2])
                d2 = float(np.ptp(M2))
                worst["second_moment_drift_over_tol"] = max(worst.get("second_moment_drift_over_tol", 0.0), d2 / e2tol)
                if d2 > e2tol:
                    viol.append({"key": f"C28:energy-second-moment-not-conserved-over-constant-window:{bk}", "msg": f"{fp}: window steps {a}..{b-1}: drift {d2:.3e} (tol {e2tol:.2e})", "detail": {"spec": spec}})
        if np.abs(snap["omega"][a]).max() > 0:
            moved = True
    return {"fp": fp, "nontrivial": bool(windows and moved), "violations": viol[:6], "counters": cnt, "max": worst,
            "sample": {"spec": spec, "backend": bk, "dt": dt, "windows": windows[:4], "norm_first_last": [norms[0], norms[-1]] if norms else None} if case["idx"] % 10 == 0 else None}
