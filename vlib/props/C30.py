"""C30 — emu-sv gradients equal finite differences of the emulated results.

Monitor: for a random sequence and a random real loss built from the Results of a noiseless `SVBackend` run, the
directional derivative <grad_AD, v> from `torch.autograd.grad` is compared with central differences of complete
re-runs (steps h and 2h; forward and backward one-sided differences detect kinks), for leaves of five kinds:
per-step amplitudes/detunings/phases, interaction matrix, initial state, numeric waveform parameters, and
pulse phases.  Losses are stratified (final time only / several times / with energy observables) so that a known
finding in one stratum cannot hide a violation in another.
"""
import dataclasses

import numpy as np

from vlib import seqgen

ID = "C30"
LEVEL = "exploration"
ENGINE = "e2e-reference"
TECHNIQUE = "differential monitor: torch.autograd.grad of random losses of SVBackend results against central finite differences of full re-runs (two step sizes, one-sided kink detector); finiteness monitor on every gradient"
LEVEL_TEXT = ("Exploration: 1-5 atoms (6 in the thorough tier), 2-12 time steps, leaves = per-step omega/delta/phi of the SequenceData (exact-zero phases and amplitudes included), "
              "the interaction matrix (with exact-zero couplings), the initial state (complex), torch parameters of Constant/Ramp/Blackman/Kaiser/Custom/Composite waveforms and pulse phases; "
              "losses = random combinations of occupation, correlation matrix and fidelity at the final time (stratum F), at several times (stratum M) and with energy / second moment / variance (stratum E); "
              "every gradient must be finite and every directional derivative must equal the finite difference within 2e-5 relative + the finite-difference error estimate.")
LEVEL_NOTE = ("A disagreement in a waveform-parameter direction is first checked upstream: if the autograd Jacobian of pulser-core's own per-ns samples differs from their finite-difference Jacobian "
              "(seen: the last sample of a pulse has zero gradient w.r.t. a Ramp's stop value when the pulse phase requires grad) the direction is counted as a Pulser sampler defect and not judged. "
              "InterpolatedWaveform with torch values is refused by pulser-core itself (numpy() on a tensor that requires grad) and StateResult cannot be deep-copied under autograd by Pulser: both are counted as "
              "rejections by Pulser, not as emulator behaviour. Directions in which the forward and backward one-sided differences disagree (kinks: amplitude clamp, PCHIP regime change) are skipped and counted.")
RULE = "(leaf kind, loss stratum, N, #steps); distinct = that tuple plus the waveform kinds; non-trivial = the gradient norm exceeds 1e-4 and at least one leaf value is an exact zero or comes from a flat segment"
ASSUMPTIONS = ["finite differences re-run the complete backend with krylov_tolerance 1e-12 at steps h, 2h, 4h (h = 1e-3) with Richardson extrapolation: below |h| ~ 1e-4 the emulated function itself is rough at the 1e-11 level because the adaptive Krylov iteration stops at different dimensions (first seen as a 2% slope change at h <= 1e-4 for an exactly-zero amplitude); tolerance = 2e-5*max(|fd|,|ad|) + 4*|R(h)-R(2h)| + 2e-8",
               "gradient w.r.t. the interaction matrix is compared on the upper triangle perturbed symmetrically (the Hamiltonian reads U[i<j])",
               "complex leaves: torch's convention grad = dL/dx + i dL/dy, directional derivative Re(conj(grad)*v)"]
REQUIRED = ["runs", "gradients_checked", "directions_compared", "finite_checks", "zero_valued_leaves", "flat_segment_cases"]
SHARD_TIMEOUT = {"quick": 1500, "thorough": 5 * 3600}
KINDS = ["steps", "U", "state", "wf", "wf"]
STRATA = ["F", "M", "E"]


def gen_cases(tier, seed):
    rng = np.random.default_rng(seed)
    reps = 3 if tier == "quick" else 24
    out = []
    for r in range(reps):
        for kind in KINDS:
            for st in STRATA:
                out.append({"kind": kind, "stratum": st, "seed": int(rng.integers(1 << 30)), "nmax": 5 if tier == "quick" else 6})
    return out


# ----------------------------------------------------------------------------- model of one differentiable experiment
class Experiment:
    """Builds the run from a flat real parameter vector theta (torch float64) and returns the loss tensor."""

    def __init__(self, case):
        import torch

        self.torch = torch
        self.case = case
        rng = self.rng = np.random.default_rng(case["seed"])
        self.kind, self.stratum = case["kind"], case["stratum"]
        self.n = int(rng.integers(1, case["nmax"] + 1))
        if self.kind == "U" and self.n < 2:
            self.n = 2
        self.dt = int(rng.choice([5, 10, 10, 20, 7]))
        self.flat = False
        self.desc = {}
        getattr(self, "_init_" + self.kind)()
        if not hasattr(self, "eval_times"):
            self._init_loss()

    # ---- sequences
    def _spec(self, wf_kinds=("const", "ramp", "blackman")):
        rng = self.rng
        return seqgen.random_spec(rng, n=self.n, basis="ising", dmin=6.5, spread=0.6, n_pulses=int(rng.integers(1, 3)), max_dur=int(rng.choice([40, 80, 120])), min_dur=16,
                                  wf_kinds=list(wf_kinds), amp_max=9.0, det_max=9.0, local=bool(self.n > 1 and rng.random() < 0.4), phase_mode=str(rng.choice(["zero", "const", "random", "mixed"])),
                                  delays=bool(rng.random() < 0.3), layout=str(rng.choice(["line", "ring", "random"])) if self.n > 2 else "line", lead_delay=int(rng.choice([0, 0, 16, 40])))

    def _config(self, **kw):
        import emu_sv

        T = self.eval_times
        obs = [emu_sv.Occupation(evaluation_times=T), emu_sv.CorrelationMatrix(evaluation_times=T), emu_sv.Fidelity(evaluation_times=T, state=self.target_state)]
        if self.stratum == "E":
            obs += [emu_sv.Energy(evaluation_times=T), emu_sv.EnergySecondMoment(evaluation_times=T), emu_sv.EnergyVariance(evaluation_times=T)]
        return emu_sv.SVConfig(dt=self.dt, observables=obs, krylov_tolerance=1e-12, log_level=50, gpu=False, **kw)

    def _init_loss(self):
        import emu_sv

        torch, rng, n = self.torch, self.rng, self.n
        self.eval_times = [1.0] if self.stratum == "F" else sorted({float(rng.choice([0.25, 0.4, 0.5, 0.6])), 1.0}) if self.stratum == "M" else ([1.0] if rng.random() < 0.5 else [0.5, 1.0])
        amp = rng.normal(size=2 ** n) + 1j * rng.normal(size=2 ** n)
        self.target_state = emu_sv.StateVector(torch.tensor(amp / np.linalg.norm(amp), dtype=torch.complex128), gpu=False)
        self.w_occ = {t: torch.tensor(rng.normal(size=n)) for t in self.eval_times}
        self.w_corr = {t: torch.tensor(rng.normal(size=(n, n))) for t in self.eval_times}
        self.w_fid = {t: float(rng.normal()) for t in self.eval_times}
        self.w_en = {t: [float(x) for x in rng.normal(size=3) * np.array([0.2, 0.01, 0.01])] for t in self.eval_times}

    def loss_of(self, results):
        from vlib import e2e

        torch = self.torch
        L = 0.0
        for t in self.eval_times:
            occ = e2e.get_at(results, "occupation", t)
            corr = e2e.get_at(results, "correlation_matrix", t)
            if not isinstance(corr, torch.Tensor):
                corr = torch.stack([torch.stack([torch.as_tensor(x) for x in row]) for row in corr])
            fid = e2e.get_at(results, "fidelity", t)
            L = L + (self.w_occ[t] * occ.real).sum() + (self.w_corr[t] * corr.real).sum() + self.w_fid[t] * torch.as_tensor(fid).real
            if self.stratum == "E":
                a, b, c = self.w_en[t]
                L = L + a * torch.as_tensor(e2e.get_at(results, "energy", t)).real + b * torch.as_tensor(e2e.get_at(results, "energy_second_moment", t)).real \
                    + c * torch.as_tensor(e2e.get_at(results, "energy_variance", t)).real
        return L

    # ---- kind: per-step leaves
    def _init_steps(self):
        import emu_sv
        from emu_base.pulser_adapter import PulserData

        torch, rng = self.torch, self.rng
        self.spec = seqgen.random_spec(rng, n=self.n, basis="ising", dmin=6.5, spread=0.6, n_pulses=int(rng.integers(1, 3)), max_dur=40, min_dur=16, wf_kinds=["const", "ramp", "blackman"],
                                       amp_max=9.0, det_max=9.0, local=bool(self.n > 1 and rng.random() < 0.4), phase_mode=str(rng.choice(["zero", "const", "random", "mixed"])), delays=False)
        seq = seqgen.build(self.spec)
        self.dt = max(4, int(np.ceil(seq.get_duration() / int(rng.integers(3, 10)))))
        self._init_loss()
        cfg = self._config()
        self.cfg = cfg
        self.sd = list(PulserData(sequence=seq, config=cfg, dt=cfg.dt).get_sequences())[0]
        keep = self.sd.omega.shape[0]
        om = self.sd.omega.real.clone()
        de = self.sd.delta.real.clone()
        ph = self.sd.phi.real.clone()
        mode = str(rng.choice(["as-is", "zero-phase", "random-phase", "some-zero-omega", "leading-zero-rows"]))
        if mode == "zero-phase":
            ph.zero_()
        elif mode == "random-phase":
            ph = torch.tensor(rng.uniform(-3, 3, size=tuple(ph.shape)))
        elif mode == "leading-zero-rows":  # undriven first step(s): the initial |g..g> lies exactly in the kernel of H there
            om[: int(rng.integers(1, 3))] = 0.0
        elif mode == "some-zero-omega":
            om[rng.random(size=tuple(om.shape)) < 0.3] = 0.0
            ph[rng.random(size=tuple(ph.shape)) < 0.5] = 0.0
        self.shape = tuple(om.shape)
        self.theta0 = torch.cat([om.reshape(-1), de.reshape(-1), ph.reshape(-1)]).to(torch.float64)
        self.zero_leaves = int((self.theta0 == 0).sum())
        self.desc = {"mode": mode, "steps": keep, "n": self.shape[1]}
        self.n = self.shape[1]

    def _run_steps(self, theta):
        import emu_sv

        torch = self.torch
        k = self.shape[0] * self.shape[1]
        om, de, ph = (theta[i * k:(i + 1) * k].reshape(self.shape).to(torch.complex128) for i in range(3))
        sd = dataclasses.replace(self.sd, omega=om, delta=de, phi=ph)
        return emu_sv.SVBackend._run_from_sequence_data(sd, self.cfg)

    # ---- kind: interaction matrix
    def _init_U(self):
        torch, rng, n = self.torch, self.rng, self.n
        self.spec = self._spec()
        self.pairs = [(i, j) for i in range(n) for j in range(i + 1, n)]
        vals = rng.uniform(0.3, 6.0, size=len(self.pairs)) * rng.choice([1.0, 1.0, -1.0], size=len(self.pairs))
        zero = rng.random(size=len(self.pairs)) < 0.35
        if len(self.pairs) > 1 and not zero.any():
            zero[int(rng.integers(len(self.pairs)))] = True
        vals[zero] = 0.0
        self.theta0 = torch.tensor(vals, dtype=torch.float64)
        self.zero_leaves = int(zero.sum())
        self.desc = {"pairs": len(self.pairs), "zero_couplings": int(zero.sum())}

    def _run_U(self, theta):
        import emu_sv

        torch, n = self.torch, self.n
        mat = torch.zeros(n, n, dtype=torch.float64)
        for v, (i, j) in zip(theta.detach(), self.pairs):
            mat[i, j] = mat[j, i] = v
        be = emu_sv.SVBackend(seqgen.build(self.spec), config=self._config(interaction_matrix=mat.unsqueeze(0)))
        used = be._config.interaction_matrix.as_tensor()
        self._leaf = used
        if theta.requires_grad:
            used.requires_grad_(True)
        return be.run()

    def _grad_U(self, loss):
        g, = self.torch.autograd.grad(loss, self._leaf, allow_unused=True)
        if g is None:
            return None
        g = g.reshape(self.n, self.n)
        return self.torch.stack([g[i, j] + g[j, i] for i, j in self.pairs])

    # ---- kind: initial state
    def _init_state(self):
        torch, rng, n = self.torch, self.rng, self.n
        self.spec = self._spec()
        D = 2 ** n
        mode = str(rng.choice(["random", "sparse", "basis"]))
        amp = rng.normal(size=D) + 1j * rng.normal(size=D)
        if mode == "sparse":
            amp[rng.random(size=D) < 0.5] = 0.0
        if mode == "basis" or not np.any(amp):
            amp = np.zeros(D, dtype=complex)
            amp[int(rng.integers(D))] = 1.0
        amp = amp / np.linalg.norm(amp)
        self.theta0 = torch.tensor(np.concatenate([amp.real, amp.imag]), dtype=torch.float64)
        self.zero_leaves = int((self.theta0 == 0).sum())
        self.desc = {"mode": mode}

    def _run_state(self, theta):
        import emu_sv

        torch = self.torch
        D = 2 ** self.n
        psi = torch.complex(theta[:D].detach(), theta[D:].detach())
        be = emu_sv.SVBackend(seqgen.build(self.spec), config=self._config(initial_state=emu_sv.StateVector(psi, gpu=False)))
        leaf = be._config.initial_state.data
        self._leaf = leaf
        if theta.requires_grad:
            leaf.requires_grad_(True)
        return be.run()

    def _grad_state(self, loss):
        g, = self.torch.autograd.grad(loss, self._leaf, allow_unused=True)
        if g is None:
            return None
        return self.torch.cat([g.real, g.imag])

    # ---- kind: waveform parameters
    def _init_wf(self):
        torch, rng, n = self.torch, self.rng, self.n
        pts = seqgen.positions(rng, n, "line" if n < 3 else str(rng.choice(["line", "ring"])), 6.5, 0.6)
        self.atoms = {f"q{i}": pts[i] for i in range(n)}
        npulse = int(rng.integers(1, 4))
        self.plan, vals = [], []

        def newp(lo, hi):
            vals.append(float(rng.uniform(lo, hi)))
            return len(vals) - 1

        kinds_seen = set()
        for _ in range(npulse):
            dur = int(rng.choice([24, 40, 60, 100]))
            ak = str(rng.choice(["const", "ramp", "blackman", "kaiser", "custom", "composite", "ramp-const"]))
            dk = str(rng.choice(["const", "ramp", "composite", "zero"]))
            kinds_seen |= {ak, "d" + dk}
            a = {"const": lambda: ("const", dur, newp(1, 9)), "ramp": lambda: ("ramp", dur, newp(1, 9), newp(1, 9)), "blackman": lambda: ("blackman", dur, newp(0.3, 2.5)),
                 "kaiser": lambda: ("kaiser", dur, newp(0.3, 2.5)), "custom": lambda: ("custom", dur, newp(1, 8)),
                 "composite": lambda: ("composite", dur, newp(1, 9), newp(1, 9), newp(1, 9)), "ramp-const": lambda: ("ramp-const", dur, newp(1, 9), newp(1, 9))}[ak]()
            d = {"const": lambda: ("const", dur, newp(-8, 8)), "ramp": lambda: ("ramp", dur, newp(-8, 8), newp(-8, 8)), "composite": lambda: ("composite", dur, newp(-8, 8), newp(-8, 8), newp(-8, 8)),
                 "zero": lambda: ("zero", dur)}[dk]()
            phase = ("tensor", newp(-3, 3)) if rng.random() < 0.5 else ("float", float(rng.choice([0.0, 0.0, 1.1])))
            self.plan.append((a, d, phase))
            if ak in ("const", "blackman", "kaiser", "composite", "ramp-const") or dk in ("const", "zero", "composite"):
                self.flat = True
        self.theta0 = torch.tensor(vals, dtype=torch.float64)
        self.zero_leaves = sum(1 for _a, _d, p in self.plan if p[0] == "float" and p[1] == 0.0)
        self.desc = {"pulses": npulse, "waveforms": sorted(kinds_seen)}

    def _wf(self, w, th):
        from pulser.waveforms import BlackmanWaveform, CompositeWaveform, ConstantWaveform, CustomWaveform, KaiserWaveform, RampWaveform

        torch = self.torch
        k, dur = w[0], w[1]
        if k == "const":
            return ConstantWaveform(dur, th[w[2]])
        if k == "ramp":
            return RampWaveform(dur, th[w[2]], th[w[3]])
        if k == "blackman":
            return BlackmanWaveform(dur, th[w[2]])
        if k == "kaiser":
            return KaiserWaveform(dur, th[w[2]])
        if k == "custom":
            return CustomWaveform(th[w[2]] * (0.2 + torch.sin(torch.linspace(0.0, 3.0, dur, dtype=torch.float64)) ** 2))
        if k == "composite":  # ramp, plateau, ramp: flat segment in the middle
            a, b, c = dur // 4, dur // 2, dur - dur // 4 - dur // 2
            return CompositeWaveform(RampWaveform(a, th[w[2]], th[w[3]]), ConstantWaveform(b, th[w[3]]), RampWaveform(c, th[w[3]], th[w[4]]))
        if k == "ramp-const":
            return CompositeWaveform(RampWaveform(dur // 2, th[w[2]], th[w[3]]), ConstantWaveform(dur - dur // 2, th[w[3]]))
        if k == "zero":
            return ConstantWaveform(dur, 0.0)
        raise ValueError(k)

    def _run_wf(self, theta):
        import emu_sv
        from pulser import Pulse, Register, Sequence
        from pulser.devices import MockDevice

        seq = Sequence(Register(self.atoms), MockDevice)
        seq.declare_channel("g", "rydberg_global")
        for a, d, p in self.plan:
            seq.add(Pulse(self._wf(a, theta), self._wf(d, theta), theta[p[1]] if p[0] == "tensor" else p[1]), "g")
        return emu_sv.SVBackend(seq, config=self._config()).run()

    # ---- common
    def loss(self, theta):
        return self.loss_of(getattr(self, "_run_" + self.kind)(theta))

    def grad(self, theta):
        torch = self.torch
        theta = theta.clone().requires_grad_(True)
        L = self.loss(theta)
        if not isinstance(L, torch.Tensor) or not L.requires_grad:
            return float(L), None
        if self.kind in ("U", "state"):
            return float(L), getattr(self, "_grad_" + self.kind)(L)
        g, = torch.autograd.grad(L, theta, allow_unused=True)
        return float(L), g


def _pulser_samples_differentiable(ex, theta0, v, h=1e-4):
    """True iff the directional derivative of a fixed random functional of Pulser's per-ns samples (as the adapter receives them) agrees
    between autograd and central differences."""
    import torch
    import emu_base.pulser_adapter as pa

    cap = {}
    orig = pa._extract_omega_delta_phi

    def wrap(noisy_samples, qubit_ids, target_times):
        d = noisy_samples.to_nested_dict(all_local=True, samples_type="tensor")["Local"]
        d = d.get("ground-rydberg", d.get("XY"))
        cap["sig"] = torch.cat([torch.as_tensor(d[q][nm]).real.reshape(-1).to(torch.float64) for q in qubit_ids if q in d for nm in ("amp", "det", "phase")])
        return orig(noisy_samples, qubit_ids, target_times)

    pa._extract_omega_delta_phi = wrap
    try:
        th = theta0.clone().requires_grad_(True)
        ex.loss(th)
        sig = cap["sig"]
        w = torch.tensor(np.random.default_rng(7).normal(size=sig.numel()))
        if not sig.requires_grad:
            return True
        g, = torch.autograd.grad((w * sig).sum(), th, allow_unused=True)
        ad = 0.0 if g is None else float((g * v).sum())
        with torch.no_grad():
            ex.loss(theta0 + h * v)
            sp = float((w * cap["sig"]).sum())
            ex.loss(theta0 - h * v)
            sm = float((w * cap["sig"]).sum())
        fd = (sp - sm) / (2 * h)
        return abs(ad - fd) <= 1e-6 * max(1.0, abs(fd))
    except Exception:
        return True
    finally:
        pa._extract_omega_delta_phi = orig


def run_case(case):
    import warnings

    import torch

    warnings.filterwarnings("ignore")
    cnt = {k: 0 for k in REQUIRED}
    cnt.update(kink_directions_skipped=0, pulser_rejections=0)
    viol, mx = [], {}
    try:
        ex = Experiment(case)
    except Exception as e:
        return {"fp": None, "nontrivial": False, "violations": [], "counters": cnt, "max": {}, "sample": None, "harness_error": f"experiment construction: {type(e).__name__}: {e}"[:300]}
    rng = np.random.default_rng(case["seed"] + 1)
    fp = f"{ex.kind}:{ex.stratum}:n{ex.n}:{ex.desc}"
    key_s = f"{ex.kind}:{'energy' if ex.stratum == 'E' else 'several-times' if ex.stratum == 'M' else 'final-time'}"
    theta0 = ex.theta0
    try:
        L0, g = ex.grad(theta0)
    except Exception as e:
        import traceback

        fr = [f"{f.filename.split('/')[-1]}:{f.name}" for f in traceback.extract_tb(e.__traceback__) if "/emu_" in f.filename]
        cnt["runs"] += 1
        return {"fp": fp, "nontrivial": False, "violations": [{"key": f"C30:differentiation-raises:{type(e).__name__}:{fr[-1] if fr else 'outside-emulators'}:{key_s}", "msg": f"{fp}: {e}"[:400], "detail": {"case": case}}],
                "counters": cnt, "max": {}, "sample": None}
    cnt["runs"] += 1
    if g is None:
        return {"fp": fp, "nontrivial": False, "violations": [{"key": f"C30:loss-does-not-depend-on-leaf:{key_s}", "msg": fp}], "counters": cnt, "max": {}, "sample": None}
    cnt["gradients_checked"] += 1
    cnt["finite_checks"] += int(g.numel())
    cnt["zero_valued_leaves"] += int(ex.zero_leaves)
    cnt["flat_segment_cases"] += int(ex.flat)
    if not bool(torch.isfinite(g).all()):
        bad = int((~torch.isfinite(g)).sum())
        viol.append({"key": f"C30:gradient-not-finite:{key_s}", "msg": f"{fp}: {bad} of {g.numel()} gradient entries are nan/inf", "detail": {"case": case}})
        g = torch.nan_to_num(g, nan=0.0, posinf=0.0, neginf=0.0)
    g = g.detach().to(torch.float64)
    P = theta0.numel()
    dirs = []
    for _ in range(3):
        v = torch.tensor(rng.normal(size=P))
        dirs.append(("random", v / v.norm()))
    special = [int(i) for i in torch.nonzero(theta0 == 0).reshape(-1)[:3]]
    if ex.kind == "steps":
        k = ex.shape[0] * ex.shape[1]
        special += [k - 1, 0, 2 * k - 1, 3 * k - 1]  # last-step omega, first omega, last delta, last phi
    for i in list(dict.fromkeys(special))[:5] + [int(rng.integers(P))]:
        v = torch.zeros(P, dtype=torch.float64)
        v[i] = 1.0
        dirs.append((f"coordinate{i}", v))
    h = 1e-3
    worst = 0.0
    for name, v in dirs:
        with torch.no_grad():
            try:
                lo = {m: (float(ex.loss(theta0 + m * h * v)), float(ex.loss(theta0 - m * h * v))) for m in (1, 2, 4)}
            except Exception:
                cnt["pulser_rejections"] += 1  # e.g. amplitude pushed below zero
                continue
        cnt["runs"] += 6
        c = {m: (lo[m][0] - lo[m][1]) / (2 * m * h) for m in (1, 2, 4)}
        fd, fd2 = (4 * c[1] - c[2]) / 3, (4 * c[2] - c[4]) / 3  # Richardson: O(h^4)
        ad = float((g * v).sum())
        scale = max(abs(fd), abs(ad))
        d1, d2 = lo[1][0] - 2 * L0 + lo[1][1], lo[2][0] - 2 * L0 + lo[2][1]  # second differences: f''h^2 + K h and 4 f''h^2 + 2 K h for a slope jump K at the point
        kink = abs(4 * d1 - d2) / (2 * h)
        if kink > 1e-3 * max(scale, 1e-3) + 1e-6:  # one-sided derivatives disagree: AD is undefined there
            cnt["kink_directions_skipped"] += 1
            continue
        tol = 2e-5 * scale + 4 * abs(fd - fd2) + 2e-8
        cnt["directions_compared"] += 1
        frac_ = abs(ad - fd) / tol
        if abs(ad - fd) > tol and float((theta0[: (ex.shape[0] * ex.shape[1]) if ex.kind == "steps" else 0] == 0).sum()) > 0:
            # exactly-zero amplitudes: the forward pass itself is rough there (adaptive Krylov stops early for a tiny coupling: known finding
            # C07/C01), so small-step differences measure that roughness. If the derivative at a 10x coarser scale agrees with autograd, the
            # disagreement is attributed to that mechanism and reported under its own key.
            attributed = False
            with torch.no_grad():
                for coarse in (10, 100, 300):  # the roughness scale varies (seen: 1e-3 and 3e-2 rad/us)
                    try:
                        lo2 = {m: (float(ex.loss(theta0 + m * coarse * h * v)), float(ex.loss(theta0 - m * coarse * h * v))) for m in (1, 2, 4)}
                    except Exception:
                        break
                    c2 = {m: (lo2[m][0] - lo2[m][1]) / (2 * m * coarse * h) for m in (1, 2, 4)}
                    fdc, fdc2 = (4 * c2[1] - c2[2]) / 3, (4 * c2[2] - c2[4]) / 3
                    cnt["runs"] += 6
                    if abs(ad - fdc) <= 2e-5 * max(abs(fdc), abs(ad)) + 4 * abs(fdc - fdc2) + 2e-8:
                        viol.append({"key": "C30:finite-difference-rough-at-exactly-zero-amplitude:krylov-early-stop",
                                     "msg": f"{fp}: direction {name}: autograd {ad:.9g}, finite difference {fd:.9g} at h=1e-3 but {fdc:.9g} at h={coarse * h:.0e}", "detail": {"case": case}})
                        attributed = True
                        break
            if attributed:
                continue
        if abs(ad - fd) > tol and ex.kind == "wf" and not _pulser_samples_differentiable(ex, theta0, v):
            # pulser-core's own sampler returned samples whose autograd Jacobian differs from their finite-difference Jacobian (seen: the last
            # sample of a pulse loses its gradient when the pulse phase requires grad): upstream of the emulators, counted and not judged
            cnt["pulser_sampler_gradient_defects"] = cnt.get("pulser_sampler_gradient_defects", 0) + 1
            continue
        worst = max(worst, frac_)  # only directions that are judged
        if abs(ad - fd) > tol:
            leafname = name
            if ex.kind == "steps" and name.startswith("coordinate"):
                i = int(name[10:])
                k = ex.shape[0] * ex.shape[1]
                leafname = ["omega", "delta", "phi"][i // k] + ("-last-step" if (i % k) // ex.shape[1] == ex.shape[0] - 1 else "")
            viol.append({"key": f"C30:gradient-differs-from-finite-difference:{key_s}", "msg": f"{fp}: direction {leafname}: autograd {ad:.9g} vs finite difference {fd:.9g} (+-{abs(fd - fd2):.1e})",
                         "detail": {"case": case, "direction": name}})
            break
    mx["max_fraction_of_tolerance_used"] = worst
    gn = float(g.norm())
    return {"fp": fp, "nontrivial": bool(gn > 1e-4 and (ex.zero_leaves > 0 or ex.flat)), "violations": viol[:3], "counters": cnt, "max": mx,
            "sample": {"case": fp, "loss": L0, "gradient_norm": gn, "eval_times": ex.eval_times, "worst_fraction_of_tolerance_used": worst}}
