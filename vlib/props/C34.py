"""C34 — multi-trajectory results aggregate all simulated trajectories.

Monitor: wrapper on `Results.aggregate` (what both backends call at the end of `run()`) capturing its inputs and
output, plus a counter on `_run_from_sequence_data`: number of simulated trajectories = n_trajectories = sum of
Pulser's repetition counts; every mean-aggregated observable equals the arithmetic mean of the per-trajectory
values; bitstring counts add up to n_trajectories x shots; times and atom order are preserved.
"""
import numpy as np

from vlib import e2e, seqgen

ID = "C34"
LEVEL = "exploration"
ENGINE = "adapter-oracle"
TECHNIQUE = "runtime wrapper on Results.aggregate and on the per-trajectory solver entry point: conservation checks between per-trajectory and aggregated results"
LEVEL_TEXT = ("Exploration: both backends, n_trajectories 1..50, shot-to-shot noise (SPAM, amplitude, detuning, doppler, register) and "
              "trajectory-invariant noise (relaxation/dephasing: Monte-Carlo trajectories in emu-mps, one density-matrix run in emu-sv) and no noise; "
              "number of solver runs, means, bitstring totals, times and atom order are checked on every run().")
LEVEL_NOTE = "What pulser-core's Results.aggregate does with each aggregation type is taken as given; the check is that the backends feed it every trajectory and return its output."
RULE = "(backend, noise kind, n_trajectories, shots); distinct = that tuple; non-trivial = n_trajectories >= 2 and the per-trajectory values differ"
ASSUMPTIONS = ["mean tolerance 1e-10 (aggregation is plain arithmetic)", "Pulser's HamiltonianData.noise_trajectories reps define the number of simulations per trajectory"]
REQUIRED = ["runs", "aggregate_calls_observed", "mean_checks", "bitstring_total_checks", "multi_trajectory_runs"]
SHARD_TIMEOUT = {"quick": 1700, "thorough": 5 * 3600}
NOISES = ["spam", "amplitude", "detuning", "doppler", "register", "relaxation", "dephasing+spam", "none"]


def gen_cases(tier, seed):
    rng = np.random.default_rng(seed)
    n_cases = 48 if tier == "quick" else 288
    return [{"seed": int(rng.integers(1 << 30)), "backend": "sv" if i % 2 else "mps", "noise": NOISES[(i // 2) % len(NOISES)],
             "ntraj": int(rng.choice([1, 2, 3, 5, 8, 13, 21, 50])) if tier == "thorough" else int(rng.choice([1, 2, 3, 5, 8, 13, 33, 41]))} for i in range(n_cases)]


def _nm(kind, rng):
    from pulser import NoiseModel

    if kind == "none":
        return None
    kw = {}
    if "spam" in kind:
        kw.update(state_prep_error=float(rng.uniform(0.05, 0.3)), p_false_pos=0.02, p_false_neg=0.05)
    if kind == "amplitude":
        kw.update(amp_sigma=0.1, laser_waist=80.0)
    if kind == "detuning":
        kw.update(detuning_sigma=1.0)
    if kind == "doppler":
        kw.update(temperature=50.0)
    if kind == "register":
        kw.update(temperature=50.0, trap_waist=1.0, trap_depth=150.0, disable_doppler=True)
    if kind == "relaxation":
        kw.update(relaxation_rate=1.0)
    if "dephasing" in kind:
        kw.update(dephasing_rate=0.5)
    return NoiseModel(**kw)


def run_case(case):
    import emu_mps
    import emu_sv
    from pulser.backend import Results
    from pulser.backend.observable import AggregationMethod
    from emu_base.pulser_adapter import PulserData

    rng = np.random.default_rng(case["seed"])
    bk, kind, ntraj = case["backend"], case["noise"], case["ntraj"]
    n = int(rng.integers(3, 5))
    spec = seqgen.random_spec(rng, n=n, basis="ising", dmin=7.5, max_dur=80, min_dur=30, n_pulses=1, wf_kinds=["const", "blackman"], amp_max=8.0, det_max=5.0, layout="line")
    seq = seqgen.build(spec)
    shots = int(rng.choice([10, 100, 333]))
    M = emu_sv if bk == "sv" else emu_mps
    obs = [M.Occupation(evaluation_times=[0.5, 1.0]), M.CorrelationMatrix(), M.Energy(), M.BitStrings(num_shots=shots), M.EnergyVariance()]
    kw = dict(dt=10.0, observables=obs, log_level=e2e.quiet())
    nm = _nm(kind, rng)
    if nm is not None:
        kw["noise_model"] = nm
    kw["n_trajectories"] = ntraj
    cnt = {k: 0 for k in REQUIRED}
    cnt["rejected"] = 0
    viol = []
    fp = f"{bk}:{kind}:{ntraj}:{shots}"
    captured = []
    orig = Results.__dict__["aggregate"]

    def spy(cls, results, **kwargs):
        out = orig.__func__(cls, results, **kwargs)
        captured.append((list(results), out))
        return out

    Results.aggregate = classmethod(spy)
    B = emu_sv.SVBackend if bk == "sv" else emu_mps.MPSBackend
    try:
        cfg = emu_sv.SVConfig(gpu=False, **kw) if bk == "sv" else emu_mps.MPSConfig(num_gpus_to_use=0, **kw)
        with e2e.recording(B) as rec:
            res = B(seq, config=cfg).run()
        reps = [r for _, r in PulserData(sequence=seq, config=cfg, dt=10.0).hamiltonian.noise_trajectories]
    except Exception as e:
        Results.aggregate = orig
        msg = str(e)
        if "For 1 qubit states" in msg or "more than 2 qubits" in msg or isinstance(e, AssertionError) and "emu_mps is designed" in msg:
            cnt["rejected"] += 1  # too few well-prepared atoms left for emu-mps: judged by C25
            cnt["runs"] += 1
            return {"fp": fp, "nontrivial": False, "violations": [], "counters": cnt, "max": {}, "sample": None}
        viol.append({"key": f"C34:run-raises:{type(e).__name__}", "msg": f"{fp}: {e}"[:300]})
        cnt["runs"] += 1
        return {"fp": fp, "nontrivial": False, "violations": viol, "counters": cnt, "max": {}, "sample": None}
    finally:
        Results.aggregate = orig
    cnt["runs"] += 1
    if ntraj >= 2:
        cnt["multi_trajectory_runs"] += 1
    if len(captured) != 1:
        viol.append({"key": "C34:aggregate-not-called-exactly-once", "msg": f"{fp}: {len(captured)} calls"})
        return {"fp": fp, "nontrivial": False, "violations": viol, "counters": cnt, "max": {}, "sample": None}
    cnt["aggregate_calls_observed"] += 1
    inputs, out = captured[0]
    if out is not res:
        viol.append({"key": "C34:run-does-not-return-the-aggregated-results", "msg": fp})
    if len(rec) != ntraj or len(inputs) != ntraj:
        viol.append({"key": "C34:number-of-simulated-trajectories-differs-from-n_trajectories", "msg": f"{fp}: {len(rec)} solver runs, {len(inputs)} aggregated, Pulser reps {reps}"})
    if sum(reps) != ntraj:
        viol.append({"key": "C34:pulser-repetitions-do-not-sum-to-n_trajectories", "msg": f"{fp}: {reps}"})
    if any(a is b for i, a in enumerate(inputs) for b in inputs[i + 1:]):
        viol.append({"key": "C34:same-results-object-aggregated-twice", "msg": fp})
    differ = False
    for o in cfg.observables:
        tag = o.tag
        if o.default_aggregation_method in (AggregationMethod.SKIP, AggregationMethod.SKIP_WARN):
            continue  # Pulser drops these on aggregation when there are several trajectories
        if tag not in res.get_result_tags():
            viol.append({"key": "C34:observable-missing-from-aggregated-results", "msg": f"{fp}: {tag}"})
            continue
        times = res.get_result_times(tag)
        for r in inputs:
            if [float(t) for t in r.get_result_times(tag)] != [float(t) for t in times]:
                viol.append({"key": "C34:aggregated-times-differ-from-trajectory-times", "msg": f"{fp}: {tag}"})
                break
        for t in times:
            vals = [r.get_result(tag, t) for r in inputs]
            agg = res.get_result(tag, t)
            if o.default_aggregation_method == AggregationMethod.MEAN:
                arr = np.array([np.asarray(e2e.to_np(v), dtype=float) for v in vals])
                want = arr.mean(axis=0)
                cnt["mean_checks"] += 1
                if np.ptp(arr, axis=0).max() > 1e-9:
                    differ = True
                got = np.asarray(e2e.to_np(agg), dtype=float)
                if got.shape != want.shape or np.abs(got - want).max() > 1e-10 * (1 + np.abs(want).max()):
                    viol.append({"key": f"C34:aggregated-value-is-not-the-mean:{tag}", "msg": f"{fp}: t={t} got {np.round(got, 6).tolist() if got.size <= 6 else '...'} mean {np.round(want, 6).tolist() if want.size <= 6 else '...'}"})
                    break
            elif tag == "bitstrings":
                cnt["bitstring_total_checks"] += 1
                tot = sum(agg.values())
                if tot != ntraj * shots or any(sum(v.values()) != shots for v in vals):
                    viol.append({"key": "C34:bitstring-counts-do-not-add-up", "msg": f"{fp}: total {tot}, expected {ntraj}x{shots}; per trajectory {[sum(v.values()) for v in vals][:6]}"})
                merged = {}
                for v in vals:
                    for s_, k_ in v.items():
                        merged[s_] = merged.get(s_, 0) + k_
                if dict(agg) != merged:
                    viol.append({"key": "C34:aggregated-bitstrings-are-not-the-union", "msg": fp})
    if tuple(res.atom_order) != tuple(a[0] for a in spec["atoms"]) or any(tuple(r.atom_order) != tuple(res.atom_order) for r in inputs):
        viol.append({"key": "C34:atom-order-not-preserved", "msg": f"{fp}: {res.atom_order}"})
    return {"fp": fp, "nontrivial": bool(ntraj >= 2 and differ), "violations": viol[:6], "counters": cnt, "max": {},
            "sample": {"backend": bk, "noise": kind, "n_trajectories": ntraj, "shots": shots, "pulser_reps": reps, "solver_runs": len(rec)} if case["idx"] % 8 == 0 else None}
