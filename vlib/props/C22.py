"""C22 — per-step drive values are the interpolated Pulser samples.

Monitor: contract on every `SequenceData` yielded by the real `PulserData.get_sequences()`: for every atom *by
qubit id* and every step, omega/delta/phi equal scipy's PCHIP interpolation of that trajectory's per-atom 1-ns
Pulser samples (read independently through `to_nested_dict(all_local=True)`) at the step midpoint; omega >= 0.
"""
import numpy as np

from vlib import adapter, seqgen

ID = "C22"
LEVEL = "exploration"
ENGINE = "adapter-oracle"
TECHNIQUE = "runtime contract on SequenceData.omega/delta/phi vs scipy PCHIP of pulser-core's per-atom samples (keyed by qubit id)"
LEVEL_TEXT = ("Exploration: generated sequences with all waveform kinds, global and retargeted local channels, detuning maps, SLM, "
              "modulation, amplitude/detuning/doppler noise trajectories, dt in {0.25..33} and evaluation times inside the last ns; "
              "every entry of omega/delta/phi of every yielded SequenceData is compared with the scipy interpolant of Pulser's own "
              "per-atom samples at the step midpoint; amplitudes must be non-negative and the shape (steps, register atoms).")
LEVEL_NOTE = "Trusts pulser-core's sampler/HamiltonianData (noisy_samples of the very PulserData under test are re-read independently) and scipy PchipInterpolator."
RULE = ("(channels, waveform kinds, modulation, noise kind, dt class, eval style); distinct = structural fingerprint + dt; non-trivial = "
        "some atom's amplitude varies over time and at least 2 steps")
ASSUMPTIONS = ["'shape-preserving cubic interpolation' = scipy.interpolate.PchipInterpolator(extrapolate=True) on the integer-ns grid",
               "beyond the last Pulser sample the extrapolated cubic floored at 0 is expected for the amplitude",
               "tolerance 1e-9*(1+max|signal|)"]
REQUIRED = ["sequence_data_checked", "entries_compared", "last_ns_midpoints_checked"]
BATCH = 6
NOISES = ["none", "none", "none", "amplitude", "detuning", "doppler", "spam"]


def gen_cases(tier, seed):
    rng = np.random.default_rng(seed)
    reps = 12 if tier == "quick" else 200
    return [{"seed": int(rng.integers(1 << 30)), "count": BATCH} for _ in range(reps)]


def run_case(case):
    from pulser import NoiseModel
    from pulser.backend import Occupation
    from emu_base.pulser_adapter import PulserData
    from emu_sv import SVConfig
    from vlib import e2e

    rng = np.random.default_rng(case["seed"])
    cnt = {k: 0 for k in REQUIRED}
    cnt["rejected"] = 0
    viol, fps = [], []
    worst = {"rel_dev_over_tol": 0.0, "most_negative_amp": 0.0}
    sample = None
    for it in range(case["count"]):
        n = int(rng.integers(1, 6))
        mod = bool(rng.random() < 0.25)
        local = bool(rng.random() < 0.4)
        only_local = local and rng.random() < 0.3
        spec = seqgen.random_spec(rng, n=n, basis="ising", dmin=6.0, local=local, dmm=bool(rng.random() < 0.35), slm=bool(rng.random() < 0.2 and n >= 2),
                                  modulation=mod, max_dur=int(rng.choice([12, 60, 200])), min_dur=int(rng.choice([2, 8])), has_global=not only_local,
                                  n_pulses=int(rng.integers(1, 4)), shuffle_ids=bool(rng.random() < 0.5))
        if rng.random() < 0.3:  # a ramp that ends at a small positive value: the extrapolated cubic can dip below 0 in the last ns
            pulses = [op for op in spec["ops"] if op["op"] == "pulse"]
            d_ = seqgen.wf_duration(pulses[-1]["amp"])
            if d_ >= 4:
                pulses[-1]["amp"] = ["ramp", d_, float(rng.uniform(3, 12)), float(10 ** rng.uniform(-3, -0.5))]
                pulses[-1]["det"] = ["const", d_, float(rng.uniform(-5, 5))]
        tail = bool(rng.random() < 0.3)
        if tail:  # an amplitude that ends at exactly 0 (ramp to 0, Blackman): the cubic continued beyond the last sample is negative
            pulses = [op for op in spec["ops"] if op["op"] == "pulse"]
            d_ = seqgen.wf_duration(pulses[-1]["amp"])
            if d_ >= 4:
                pulses[-1]["amp"] = ["ramp", d_, float(rng.uniform(3, 12)), 0.0] if rng.random() < 0.5 else ["blackman", d_, float(rng.uniform(0.5, 3.0))]
                pulses[-1]["det"] = ["const", d_, float(rng.uniform(-5, 5))]
        try:
            seq = seqgen.build(spec)
        except Exception:
            cnt["rejected"] += 1
            continue
        duration = adapter.expected_duration(seq, mod)
        dt = float(rng.choice([0.25, 0.3, 0.4, 0.5, 1, 1.7, 2.5, 3, 7.3, 10, 33]))
        if tail and duration <= 400:  # steps that do not line up with the last nanosecond: a non-final step then straddles t = T-1 with its midpoint after it
            dt = float(rng.choice([0.35, 0.55, 0.7, 0.8, 0.9, 1.4]))
        if duration / dt > 1500:
            dt = 1.0
        style = str(rng.choice(["ends", "lastns", "last2ns", "irrational", "rational"]))
        if style == "last2ns" and duration > 3:  # a step that STARTS before the last Pulser sample but whose midpoint lies after it
            times = sorted({1.0, (duration - 1 - float(rng.uniform(0.02, 0.98))) / duration})
        else:
            style = "lastns" if style == "last2ns" else style
            times = adapter.rand_eval_times(rng, style, duration, dt)
        nk = str(rng.choice(NOISES))
        nm = None
        if nk == "amplitude":
            nm = NoiseModel(amp_sigma=float(rng.uniform(0.01, 0.2)), laser_waist=float(rng.uniform(40, 200)))
        elif nk == "detuning":
            nm = NoiseModel(detuning_sigma=float(rng.uniform(0.1, 2.0)))
        elif nk == "doppler":
            nm = NoiseModel(temperature=float(rng.uniform(10, 80)))
        elif nk == "spam":
            nm = NoiseModel(state_prep_error=0.2)
        kw = dict(observables=[Occupation(evaluation_times=times)], with_modulation=mod, log_level=e2e.quiet(), dt=dt, gpu=False)
        if nm is not None:
            kw.update(noise_model=nm, n_trajectories=int(rng.integers(1, 5)))
        cfg = SVConfig(**kw)
        fp = seqgen.describe(spec) + f":dt{dt:g}:{style}:{nk}"
        try:
            pd = PulserData(sequence=seq, config=cfg, dt=dt)
            seqs = list(pd.get_sequences())
            trajs = list(pd.hamiltonian.noisy_samples)
        except Exception as e:
            import traceback

            fr = [f"{f.filename.split('/')[-1]}:{f.name}" for f in traceback.extract_tb(e.__traceback__) if "/emu_" in f.filename]
            viol.append({"key": f"C22:pulserdata-raises:{type(e).__name__}:{fr[-1] if fr else '?'}", "msg": f"{fp}: {e}"[:300], "detail": {"spec": spec}})
            cnt["sequence_data_checked"] += 1
            continue
        ids = tuple(a[0] for a in spec["atoms"])
        tt = [float(t) for t in pd.target_times]
        pos = 0
        for tr in trajs:
            sd = seqs[pos]
            pos += tr.reps
            cnt["sequence_data_checked"] += 1
            exp, raw_amp, addressed = adapter.expected_drives(tr.samples, ids, tt)
            if tuple(sd.qubit_ids) != ids:
                viol.append({"key": "C22:qubit-ids-differ-from-register-order", "msg": f"{fp}: {sd.qubit_ids}"})
            shape = (len(tt) - 1, n)
            bad_shape = False
            for name, got_t in (("amp", sd.omega), ("det", sd.delta), ("phase", sd.phi)):
                got = got_t.detach().numpy()
                if got.shape != shape:
                    viol.append({"key": "C22:drive-shape-differs-from-steps-x-register-atoms",
                                 "msg": f"{fp}: {name} has shape {got.shape}, expected {shape}; addressed atoms {sorted(addressed)} of {ids}", "detail": {"spec": spec}})
                    bad_shape = True
                    break
                if np.abs(got.imag).max() > 0:
                    viol.append({"key": "C22:drive-has-imaginary-part", "msg": f"{fp}: {name}"})
                want = exp[name]
                scale = 1.0 + float(np.max(np.abs(want)))
                dev = np.abs(got.real - want) / scale
                cnt["entries_compared"] += int(dev.size)
                worst["rel_dev_over_tol"] = max(worst["rel_dev_over_tol"], float(dev.max()) / 1e-9)
                if dev.max() > 1e-9:
                    k, j = np.unravel_index(int(np.argmax(dev)), dev.shape)
                    last = "last-step" if k == shape[0] - 1 else "beyond-last-sample" if 0.5 * (tt[k] + tt[k + 1]) > duration - 1 else "interior"
                    col = "unaddressed-atom" if ids[j] not in addressed else "addressed-atom"
                    viol.append({"key": f"C22:{name}-differs-from-pchip-of-pulser-samples:{last}:{col}",
                                 "msg": f"{fp}: step {k}/{shape[0]} (midpoint {0.5*(tt[k]+tt[k+1]):.4f} of {duration:g}) atom {ids[j]}: got {got.real[k, j]!r} want {want[k, j]!r}",
                                 "detail": {"spec": spec, "dt": dt, "evaluation_times": times}})
            if bad_shape:
                continue
            om = sd.omega.detach().numpy().real
            worst["most_negative_amp"] = max(worst["most_negative_amp"], float(-om.min()))
            if om.min() < 0:
                k, j = np.unravel_index(int(np.argmin(om)), om.shape)
                viol.append({"key": "C22:negative-amplitude" + (":last-step" if k == shape[0] - 1 else ":before-last-step"),
                             "msg": f"{fp}: omega[{k},{j}]={om[k, j]!r} at midpoint {0.5*(tt[k]+tt[k+1]):.4f} of {duration:g}", "detail": {"spec": spec, "dt": dt}})
            mids = 0.5 * (np.asarray(tt[:-1]) + np.asarray(tt[1:]))
            cnt["last_ns_midpoints_checked"] += int(np.sum(mids > duration - 1))
            if shape[0] >= 2 and np.ptp(exp["amp"], axis=0).max() > 1e-6:
                fps.append(fp)
        if sample is None:
            sample = {"spec": spec, "dt": dt, "evaluation_times": times, "noise": nk}
    return {"fp": None, "nontrivial": False, "fps": fps, "n_eval": case["count"], "violations": viol[:6], "counters": cnt, "max": worst,
            "sample": sample if case["idx"] % 12 == 0 else None}
