"""C31 — every pulser-core version the package accepts can run the emulators.

Configuration enumeration: the declared specifiers are read from pyproject.toml and ci/*/pyproject.toml, the
pulser-core distributions available offline (installed in the repository's interpreter, wheels / sdists in the
wheelhouse) are enumerated, and under every admitted one that can be imported a smoke grid is run: both backends
end to end x sequence kinds x solver/noise variants with every Observable subclass the packages define
(discovered by walking the subclasses of pulser.backend.Observable), each of which must be constructible and
must be stored at every requested time with finite values.
"""
import glob
import os
import re

import numpy as np

from vlib import e2e, env

ID = "C31"
LEVEL = "exploration"
ENGINE = "e2e-reference"
TECHNIQUE = "outcome recorder over an exhaustive smoke grid (backend x basis x solver/noise variant x observable class) run under every offline-available pulser-core distribution admitted by the declared specifiers; observable classes discovered by reflection"
LEVEL_TEXT = ("Exhaustive over: {pulser-core distributions installed in /venv or present in the wheelhouse} that satisfy every declared specifier (today exactly one: the installed 1.9.1; "
              "the check reports 'inconclusive' if an admitted distribution exists that it cannot import) x {emu-sv, emu-sv noisy, emu-mps TDVP, emu-mps DMRG, emu-mps noisy (2 and 3 levels), emu-mps XY, emu-mps XY noisy} x "
              "{global, local+DMM, SLM, custom (N,N) interaction matrix, given initial state, reordering on/off, 1-4 atoms} with every Observable subclass the packages define requested at three times; "
              "every run must return, every requested tag must be present at every requested time with finite values, emu-sv and emu-mps must agree on the ising cells (2e-2: TDVP's own error, see C02; emu-mps precision 1e-8), and "
              "every discovered Observable subclass must have been constructed and applied at least once.")
LEVEL_NOTE = "Only one admitted pulser-core distribution exists in the sealed sandbox; versions that are admitted by '>=1.8.0' but not available offline (1.8.x, later 1.9.x/1.10) cannot be run and are listed in the evidence as not explored."
RULE = "one case per (backend variant, sequence kind); distinct = cell; non-trivial = the cell ran with >= 6 observable classes and produced a non-constant occupation"
ASSUMPTIONS = ["'available offline' = importable distribution metadata in /venv plus pulser_core-*.whl / pulser-core-*.tar.gz under /opt/veriftools/wheels",
               "emu-sv is documented as ground-rydberg two-level only: XY and leakage cells are not part of its grid (C04 checks that it refuses them)"]
REQUIRED = ["versions_admitted_and_run", "cells_run", "observable_classes_constructed", "observable_values_checked", "backend_agreement_checks"]
EXHAUSTIVE = {"quick": True, "thorough": True}
VARIANTS = ["sv", "sv-noisy", "mps-tdvp", "mps-dmrg", "mps-noisy", "mps-leakage", "mps-xy", "mps-xy-noisy"]
SEQS = ["global", "local+dmm", "slm", "custom-matrix", "initial-state", "no-reorder", "one-atom", "four-atoms"]
SKIP_AGGREGATED = {"state", "energy_variance", "statistics"}  # not aggregated over several trajectories (Pulser: AggregationMethod.SKIP)


def gen_cases(tier, seed):
    reps = 1 if tier == "quick" else 3
    out = [{"meta": True, "seed": seed}]
    for r in range(reps):
        for i, v in enumerate(VARIANTS):
            for j, s in enumerate(SEQS):
                if s == "one-atom" and v.startswith("mps"):
                    continue  # emu-mps documents itself as a >= 2 atom backend
                if s in ("local+dmm",) and "xy" in v:
                    continue  # no local / DMM channels in XY mode
                out.append({"variant": v, "seq": s, "rep": r, "seed": seed * 7919 + r * 997 + i * 31 + j})
    return out


# ----------------------------------------------------------------------------- version enumeration
def _specifiers():
    from packaging.requirements import Requirement

    out = {}
    root = env.REPO
    for f in [os.path.join(root, "pyproject.toml")] + sorted(glob.glob(os.path.join(root, "ci", "*", "pyproject.toml"))):
        txt = open(f).read()
        for m in re.finditer(r"[\"'](pulser-core[^\"']*)[\"']", txt):
            out[os.path.relpath(f, root)] = Requirement(m.group(1))
    return out


def _available():
    from importlib import metadata

    found = {}
    try:
        found[metadata.version("pulser-core")] = "installed"
    except metadata.PackageNotFoundError:
        pass
    for f in glob.glob("/opt/veriftools/wheels/*"):
        m = re.match(r"pulser[_-]core-([0-9][^-]*?)(-|\.tar\.gz|\.zip)", os.path.basename(f), re.I)
        if m and m.group(1) not in found:
            found[m.group(1)] = f
    return found


def _meta_case():
    cnt = {k: 0 for k in REQUIRED}
    viol = []
    specs = _specifiers()
    avail = _available()
    if not specs:
        return {"fp": "meta", "nontrivial": False, "violations": [], "counters": cnt, "max": {}, "sample": None, "harness_error": "no pulser-core requirement found in pyproject files"}
    admitted = {v: where for v, where in avail.items() if all(r.specifier.contains(v, prereleases=True) for r in specs.values())}
    not_runnable = [v for v, where in admitted.items() if where != "installed"]
    cnt["versions_admitted_and_run"] = sum(1 for w in admitted.values() if w == "installed")
    res = {"fp": "meta", "nontrivial": False, "violations": viol, "counters": cnt, "max": {},
           "sample": {"declared": {k: str(v) for k, v in specs.items()}, "available_offline": avail, "admitted": sorted(admitted), "admitted_but_not_importable": not_runnable}}
    if not_runnable:
        res["harness_error"] = f"admitted pulser-core distributions present offline but not importable in /venv: {not_runnable}"
    if not admitted:
        res["harness_error"] = f"the installed pulser-core {sorted(avail)} is not admitted by {[str(s) for s in specs.values()]}"
    return res


# ----------------------------------------------------------------------------- observables by reflection
def observable_classes(pkg):
    """all Observable subclasses whose module belongs to emu_base or to pkg, plus those re-exported by pkg"""
    import importlib
    import pkgutil

    from pulser.backend import Observable

    for name in ("emu_base", pkg):
        mod = importlib.import_module(name)
        for m in pkgutil.walk_packages(mod.__path__, name + "."):
            try:
                importlib.import_module(m.name)
            except Exception:
                pass
    out, seen, todo = [], set(), [Observable]
    while todo:
        c = todo.pop()
        for s in c.__subclasses__():
            if s not in seen:
                seen.add(s)
                todo.append(s)
                if s.__module__.split(".")[0] in ("emu_base", pkg):
                    out.append(s)
    top = importlib.import_module(pkg)
    for nm in getattr(top, "__all__", []):
        o = getattr(top, nm, None)
        if isinstance(o, type) and issubclass(o, Observable) and o is not Observable and o not in out:
            out.append(o)
    return sorted(out, key=lambda c: (c.__module__, c.__name__))


def construct(cls, pkg, n, times, rng, dim, basis, noisy=False):
    """instantiate an observable class for an n-atom run; returns (instance or None, note)"""
    import importlib

    import torch

    top = importlib.import_module(pkg)
    name = cls.__name__
    one = "r" if basis == "ising" else "u"  # noqa: F841
    if name == "Statistics":
        return cls(evaluation_times=times, data=[0.1], timestep_count=1), "internal"
    if name == "BitStrings":
        return cls(evaluation_times=times, num_shots=50), ""
    if name == "Fidelity":
        if pkg == "emu_mps":
            eig = ("r", "g", "x") if dim == 3 else ("r", "g") if basis == "ising" else ("0", "1")
            st = top.MPS.from_state_amplitudes(eigenstates=eig, amplitudes={eig[1] * n: 1.0})
        else:
            st = top.StateVector.make(n, gpu=False) if not noisy else top.DensityMatrix.make(n, gpu=False)
        return cls(evaluation_times=times, state=st), ""
    if name == "Expectation":
        if pkg == "emu_mps":
            eig = ("r", "g", "x") if dim == 3 else ("r", "g") if basis == "ising" else ("0", "1")
            op = top.MPO.from_operator_repr(eigenstates=eig, n_qudits=n, operations=[(1.0, [({eig[0] * 2: 1.0}, {0})])])
        else:
            if noisy:
                return None, "emu-sv: Expectation of a DenseOperator is implemented for state vectors only"
            op = top.DenseOperator.from_operator_repr(eigenstates=("r", "g"), n_qudits=n, operations=[(1.0, [({"rr": 1.0}, {0})])])
        return cls(op, evaluation_times=times), ""
    if name == "Occupation" or name == "CorrelationMatrix":
        return cls(evaluation_times=times, one_state="r" if basis == "ising" else "u"), ""
    if name == "EntanglementEntropy":
        return cls(evaluation_times=times, mps_site=max(0, n // 2 - 1) if n > 1 else 0), ""
    try:
        return cls(evaluation_times=times), ""
    except TypeError as e:
        return None, f"unknown-constructor:{e}"


# ----------------------------------------------------------------------------- sequences
def build_seq(seqk, basis, rng):
    from pulser import Pulse, Register, Sequence
    from pulser.devices import MockDevice
    from pulser.waveforms import BlackmanWaveform, ConstantWaveform, RampWaveform

    n = {"one-atom": 1, "four-atoms": 4, "slm": 3}.get(seqk, int(rng.integers(2, 4)))
    d = float(rng.uniform(7.5, 9.5)) if basis == "ising" else float(rng.uniform(11, 14))
    coords = {f"q{i}": ((i % 2) * d + 0.2 * i, (i // 2) * d) for i in range(n)} if seqk == "four-atoms" else {f"q{i}": (i * d, 0.0) for i in range(n)}
    reg = Register(coords)
    seq = Sequence(reg, MockDevice)
    T = int(rng.choice([80, 120]))
    om, de = float(rng.uniform(3, 8)), float(rng.uniform(-5, 5))
    if basis == "xy":
        seq.declare_channel("g", "mw_global")
        if seqk == "slm":
            seq.config_slm_mask(["q1"])
        seq.add(Pulse(BlackmanWaveform(T, 1.5), ConstantWaveform(T, de), 0.4), "g")
        seq.add(Pulse(ConstantWaveform(T, om), RampWaveform(T, de, 0.0), 0.0), "g")
        return seq, n
    seq.declare_channel("g", "rydberg_global")
    if seqk == "slm":
        seq.config_slm_mask(["q1"])
    if seqk == "local+dmm":
        seq.declare_channel("l", "rydberg_local", initial_target="q0")
        seq.config_detuning_map(reg.define_detuning_map({q: 1.0 / n for q in coords}), "dmm_0")
        seq.add_dmm_detuning(RampWaveform(T, -3.0, 0.0), "dmm_0")
        seq.add(Pulse.ConstantPulse(T, om, de, 0.0), "l", protocol="no-delay")
    seq.add(Pulse(BlackmanWaveform(T, 1.5), ConstantWaveform(T, de), 0.4), "g")
    seq.add(Pulse(ConstantWaveform(T, om), RampWaveform(T, de, 0.0), 0.0), "g")
    return seq, n


def run_cell(case):
    import importlib

    import torch
    from pulser import NoiseModel

    rng = np.random.default_rng(case["seed"])
    variant, seqk = case["variant"], case["seq"]
    cnt = {k: 0 for k in REQUIRED}
    viol = []
    pkg = "emu_sv" if variant.startswith("sv") else "emu_mps"
    top = importlib.import_module(pkg)
    basis = "xy" if "xy" in variant else "ising"
    fp = f"{variant}|{seqk}"
    seq, n = build_seq(seqk, basis, rng)
    dim = 3 if variant == "mps-leakage" else 2
    times = [0.0, 0.5, 1.0]
    kw = {}
    if variant in ("sv-noisy", "mps-noisy"):
        kw["noise_model"] = NoiseModel(relaxation_rate=0.4, dephasing_rate=0.3)
    if variant == "mps-xy-noisy":
        kw["noise_model"] = NoiseModel(dephasing_rate=0.3)
    if variant == "mps-leakage":
        a = np.zeros((3, 3))
        a[2, 0] = 1.0
        kw["noise_model"] = NoiseModel(eff_noise_rates=[0.5], eff_noise_opers=[a], with_leakage=True)
    ntraj = 2 if ("noise_model" in kw and pkg == "emu_mps" and seqk == "global") else 1
    if "noise_model" in kw and pkg == "emu_mps":
        kw["n_trajectories"] = ntraj
    if variant == "mps-dmrg":
        from emu_mps.solver import Solver

        kw["solver"] = Solver.DMRG
    if seqk == "custom-matrix":
        m = rng.uniform(0.2, 3.0, size=(n, n))
        m = np.triu(m, 1)
        kw["interaction_matrix"] = (m + m.T).tolist()
    if seqk == "initial-state" and dim == 2:
        if pkg == "emu_mps":
            kw["initial_state"] = top.MPS.from_state_amplitudes(eigenstates=("r", "g") if basis == "ising" else ("0", "1"), amplitudes={("r" if basis == "ising" else "1") + ("g" if basis == "ising" else "0") * (n - 1): 1.0})
        elif "noise_model" not in kw:
            kw["initial_state"] = top.StateVector.from_state_amplitudes(eigenstates=("r", "g"), amplitudes={"r" + "g" * (n - 1): 1.0})
        else:
            kw["initial_state"] = top.DensityMatrix.from_state_amplitudes(eigenstates=("r", "g"), amplitudes={"r" + "g" * (n - 1): 1.0})
    if pkg == "emu_mps":
        kw.update(num_gpus_to_use=0, optimize_qubit_ordering=(seqk != "no-reorder"), precision=1e-8)
    else:
        kw.update(gpu=False)
    classes = observable_classes(pkg)
    obs, built, notes = [], [], {}
    for c in classes:
        try:
            o, note = construct(c, pkg, n, times, rng, dim, basis, noisy="noise_model" in kw)
        except Exception as e:
            viol.append({"key": f"C31:observable-cannot-be-constructed:{pkg}.{c.__name__}:{type(e).__name__}", "msg": f"{fp}: {e}"[:300]})
            continue
        if o is None:
            notes[c.__name__] = note
            if note.startswith("unknown-constructor"):
                return {"fp": fp, "nontrivial": False, "violations": viol, "counters": cnt, "max": {}, "sample": None, "harness_error": f"{c.__name__}: {note}"}
            continue
        built.append(c.__name__)
        if note != "internal":
            obs.append(o)
    cnt["observable_classes_constructed"] += len(built)
    Cfg = top.SVConfig if pkg == "emu_sv" else top.MPSConfig
    Backend = top.SVBackend if pkg == "emu_sv" else top.MPSBackend
    try:
        cfg = Cfg(dt=10, observables=obs, log_level=e2e.quiet(), **kw)
        res = Backend(seq, config=cfg).run()
    except Exception as e:
        import traceback

        fr = [f"{f.filename.split('/')[-1]}:{f.name}" for f in traceback.extract_tb(e.__traceback__) if "/emu_" in f.filename]
        cnt["cells_run"] += 1
        return {"fp": fp, "nontrivial": False, "violations": viol + [{"key": f"C31:run-raises:{variant}:{type(e).__name__}:{fr[-1] if fr else 'outside-emulators'}", "msg": f"{fp}: {e}"[:300]}],
                "counters": cnt, "max": {}, "sample": None}
    cnt["cells_run"] += 1
    tags = set(res.get_result_tags())
    occ_seen = []
    for o in obs:
        tag = o.tag
        if tag not in tags and ntraj > 1 and tag.split("_")[0] in ("state",) + tuple(SKIP_AGGREGATED) or (tag not in tags and ntraj > 1 and tag in SKIP_AGGREGATED):
            continue
        if tag not in tags:
            viol.append({"key": f"C31:observable-missing-from-results:{type(o).__name__}", "msg": f"{fp}: {tag} not in {sorted(tags)}"})
            continue
        got = [float(t) for t in res.get_result_times(tag)]
        if len(got) != len(times) or any(abs(a - b) > 1e-9 for a, b in zip(got, times)):
            viol.append({"key": f"C31:observable-times-differ:{type(o).__name__}", "msg": f"{fp}: {got}"})
            continue
        for t in times:
            v = res.get_result(tag, t)
            cnt["observable_values_checked"] += 1
            if hasattr(v, "keys"):
                ok = sum(v.values()) > 0
            elif type(v).__name__ in ("MPS", "StateVector", "DensityMatrix"):
                ok = True
            else:
                arr = np.asarray(e2e.to_np(v), dtype=complex)
                ok = bool(np.all(np.isfinite(arr)))
                if tag.startswith("occupation"):
                    occ_seen.append(arr.real)
            if not ok:
                viol.append({"key": f"C31:observable-value-not-finite:{type(o).__name__}", "msg": f"{fp}: t={t}: {v}"[:200]})
    if "statistics" not in tags and ntraj == 1:
        viol.append({"key": "C31:statistics-missing-from-results", "msg": fp})
    # the two backends must tell the same story on ising cells
    if variant == "mps-tdvp" and seqk not in ("initial-state",):
        import emu_sv

        kw_sv = {k: v for k, v in kw.items() if k in ("interaction_matrix",)}
        r2 = emu_sv.SVBackend(seq, config=emu_sv.SVConfig(dt=10, observables=[emu_sv.Occupation(evaluation_times=times)], log_level=e2e.quiet(), gpu=False, **kw_sv)).run()
        cnt["backend_agreement_checks"] += 1
        if tuple(r2.atom_order) != tuple(res.atom_order):
            viol.append({"key": "C31:backends-disagree-on-atom-order", "msg": f"{fp}: {r2.atom_order} vs {res.atom_order}"})
        for t in times:
            a, b = e2e.to_np(r2.get_result("occupation", t)).real, e2e.to_np(e2e.get_at(res, "occupation", t)).real
            if np.abs(a - b).max() > 2e-2:
                viol.append({"key": "C31:backends-disagree-on-occupation", "msg": f"{fp}: t={t}: sv {a} vs mps {b}"})
                break
    nontriv = len(built) >= 6 and len(occ_seen) >= 2 and float(np.abs(occ_seen[-1] - occ_seen[0]).max()) > 1e-3
    return {"fp": fp, "nontrivial": bool(nontriv), "violations": viol[:5], "counters": cnt, "max": {"observable_classes_in_one_run": len(built)},
            "sample": {"cell": fp, "atoms": n, "observables": built, "not_constructed": notes, "pulser_core": __import__("pulser").__version__}}


def run_case(case):
    if case.get("meta"):
        return _meta_case()
    return run_cell(case)
