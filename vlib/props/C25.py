"""C25 — badly prepared atoms behave as absent, on both backends.

Monitor: bad-atom injection + reduced-register oracle.  While `run()` executes, `numpy.random.uniform` (Pulser's
only source for the state-preparation draw) is replaced by a function that realises a CHOSEN mask (the mask
actually used is read back from the recorded `SequenceData.bad_atoms`).  The same sequence is then run on the
register without the bad atoms: good atoms must give the same results, bad atoms must read occupation 0, zero
correlations and bit '0', and `atom_order` must be the full register.
"""
import copy
import itertools

import numpy as np

from vlib import e2e, seqgen

ID = "C25"
LEVEL = "fault_enumeration"
ENGINE = "e2e-reference"
TECHNIQUE = "fault injection at Pulser's state-preparation draw (numpy.random.uniform scripted to realise every bad-atom mask) + differential oracle: the same sequence on the reduced register"
LEVEL_TEXT = ("Fault enumeration: every bad-atom mask on registers of 2-5 atoms (sampled for 6-8), incl. all-but-one and all atoms bad, with the local "
              "channel pointing at good or bad atoms, SLM masks, with and without a leakage level (3-level atoms), qubit reordering on and off, "
              "both backends; results for good atoms equal the run on the reduced register, bad atoms are dark, atom order is the register's.")
LEVEL_NOTE = "Only the state-preparation draw is scripted; everything downstream (trajectory, interaction masking, solver) is the real code. Reduced-register runs of 0 or 1 atoms are replaced by the analytic result (nothing / single-atom dynamics via emu-sv)."
RULE = "(backend, N, mask, reordering, leakage, channels); distinct = that tuple; non-trivial = at least one bad and one good atom and the good atoms get excited (> 1e-3)"
ASSUMPTIONS = ["tolerance on good atoms: 1e-6 (emu-sv; emu-mps with the same site order in both runs), 2e-2 (emu-mps when reordering may pick different orders)",
               "p_false_pos = p_false_neg = 0 so that bitstrings of bad atoms must read '0'"]
REQUIRED = ["masked_runs", "reduced_runs", "good_atom_values_compared", "dark_atom_checks", "masks_realised"]
SHARD_TIMEOUT = {"quick": 1700, "thorough": 5 * 3600}


def gen_cases(tier, seed):
    rng = np.random.default_rng(seed)
    cases = []
    for n in (2, 3, 4, 5):
        masks = [m for m in itertools.product([0, 1], repeat=n) if any(m)]
        if tier == "quick" and n >= 4:
            idx = rng.choice(len(masks), size=8, replace=False)
            masks = [masks[int(i)] for i in idx] + [tuple([1] * n), tuple([1] * (n - 1) + [0])]
        for m in masks:
            for bk in ("sv", "mps"):
                cases.append({"n": n, "mask": list(m), "backend": bk, "reorder": bool(rng.random() < 0.5), "leak": bool(bk == "mps" and rng.random() < 0.25),
                              "seed": int(rng.integers(1 << 30))})
    if tier == "thorough":
        for _ in range(200):
            n = int(rng.integers(6, 9))
            m = [int(x) for x in (rng.random(n) < rng.uniform(0.1, 0.7))]
            if not any(m):
                m[int(rng.integers(n))] = 1
            cases.append({"n": n, "mask": m, "backend": "mps" if rng.random() < 0.6 else "sv", "reorder": bool(rng.random() < 0.5), "leak": False, "seed": int(rng.integers(1 << 30))})
    return cases


class Inject:
    """numpy.random.uniform scripted so that the draw `uniform(size=n) < state_prep_error` realises `mask`"""

    def __init__(self, mask):
        self.mask = np.asarray(mask, dtype=bool)
        self.used = 0

    def __enter__(self):
        self._orig = np.random.uniform
        n = len(self.mask)

        def uniform(*a, **k):
            if not a and set(k) == {"size"} and k["size"] == n:
                self.used += 1
                return np.where(self.mask, 0.0, 1.0)
            return self._orig(*a, **k)

        np.random.uniform = uniform
        return self

    def __exit__(self, *exc):
        np.random.uniform = self._orig


def run_case(case):
    import emu_mps
    import emu_sv
    from pulser import NoiseModel

    rng = np.random.default_rng(case["seed"])
    n, mask, bk = case["n"], case["mask"], case["backend"]
    bad = [bool(x) for x in mask]
    spec = seqgen.random_spec(rng, n=n, basis="ising", dmin=7.5, spread=0.6, local=bool(rng.random() < 0.6), slm=bool(rng.random() < 0.45 and n >= 3), max_dur=100, min_dur=30,
                              n_pulses=int(rng.integers(1, 3)), amp_max=8.0, det_max=8.0, shuffle_ids=True, wf_kinds=["const", "ramp", "blackman"], delays=False)
    ids = [a[0] for a in spec["atoms"]]
    good_ids = [q for q, b in zip(ids, bad) if not b]
    # the same sequence on the reduced register: ops that only concern bad atoms become delays of the same length (keeps the channel timing)
    red = copy.deepcopy(spec)
    red["atoms"] = [a for a, b in zip(spec["atoms"], bad) if not b]
    if red.get("slm"):
        red["slm"] = [q for q in red["slm"] if q in good_ids] or None
        if red["slm"] is None and spec.get("slm"):
            pass
    cur = (spec.get("locals") or {}).get("l")
    new_ops = []
    if red.get("locals") and good_ids:
        init = red["locals"]["l"]
        red["locals"]["l"] = init if init in good_ids else good_ids[0]
    # pulse start/end times of the FULL sequence, per channel: the reduced sequence must keep them (Pulser would otherwise start a
    # global pulse earlier once the local pulse on a shared - now absent - atom has become a plain delay)
    full_seq = seqgen.build(spec)
    starts = {ch: [(sl.ti, sl.tf) for sl in sched.slots if not isinstance(sl.type, str)] for ch, sched in full_seq._schedule.items()}
    kth, tcur = {}, {}
    for op in red["ops"]:
        if op["op"] == "target":
            cur = op["q"]
            if cur in good_ids:
                new_ops.append(op)
            continue
        if op["op"] == "pulse":
            ch = op["ch"]
            k = kth.get(ch, 0)
            kth[ch] = k + 1
            ti, tf = starts[ch][k]
            if ti > tcur.get(ch, 0):
                new_ops.append({"op": "delay", "ch": ch, "dur": int(ti - tcur.get(ch, 0))})
            tcur[ch] = tf
            op = dict(op, protocol="no-delay")
            if ch == "l":
                if cur not in good_ids:
                    new_ops.append({"op": "delay", "ch": "l", "dur": int(tf - ti)})
                    continue
                new_ops.append({"op": "target", "ch": "l", "q": cur})
        new_ops.append(op)
    red["ops"] = new_ops
    fp = f"{bk}:n{n}:mask{''.join(map(str, mask))}:re{int(case['reorder'])}:leak{int(case['leak'])}:{'l' if spec.get('locals') else ''}{'slm' if spec.get('slm') else ''}"
    cnt = {k: 0 for k in REQUIRED}
    cnt["rejected"] = 0
    viol, worst = [], {}
    times = [0.2, 0.5, 0.8, 1.0]  # several: an SLM mask that ends between two of them changes the Hamiltonian the observables must use
    shots = 50
    M = emu_sv if bk == "sv" else emu_mps
    B = emu_sv.SVBackend if bk == "sv" else emu_mps.MPSBackend

    def config(spam, reorder):
        obs = [M.Occupation(evaluation_times=times), M.CorrelationMatrix(evaluation_times=times), M.BitStrings(evaluation_times=[1.0], num_shots=shots), M.Energy(evaluation_times=times)]
        kw = dict(dt=5.0, observables=obs, log_level=e2e.quiet())
        nk = {}
        if spam:
            nk.update(state_prep_error=0.3, p_false_pos=0.0, p_false_neg=0.0)
        if case["leak"]:
            op = np.zeros((3, 3))
            op[2, 0] = 1.0
            nk.update(eff_noise_rates=[1e-9], eff_noise_opers=[op], with_leakage=True)
        if nk:
            kw["noise_model"] = NoiseModel(**nk)
            kw["n_trajectories"] = 1
        if bk == "sv":
            return emu_sv.SVConfig(gpu=False, krylov_tolerance=1e-10, **kw)
        return emu_mps.MPSConfig(num_gpus_to_use=0, precision=1e-9, optimize_qubit_ordering=reorder, **kw)

    # ---- run with the injected mask
    seq = seqgen.build(spec)
    try:
        with Inject(bad) as inj, e2e.recording(B) as rec:
            res = B(seq, config=config(True, case["reorder"])).run()
    except Exception as e:
        import traceback

        fr = [f"{f.filename.split('/')[-1]}:{f.name}" for f in traceback.extract_tb(e.__traceback__) if "/emu_" in f.filename]
        ngood = len(good_ids)
        cls = "no-good-atom-left" if ngood == 0 else "one-good-atom-left" if ngood == 1 else "several-good-atoms"
        cnt["masked_runs"] += 1
        key = f"C25:run-with-bad-atoms-raises:{bk}:{cls}:{'leakage:' if case['leak'] else ''}{type(e).__name__}:{fr[-1] if fr else '?'}"
        if bk == "mps" and ngood <= 1 and isinstance(e, (ValueError, AssertionError)) and ("1 qubit" in str(e) or "more than 2 qubits" in str(e)):
            key = f"C25:emu-mps-cannot-run-with-{cls}"  # known mechanism: an MPS needs at least two sites
        viol.append({"key": key,
                     "msg": f"{fp}: {e}"[:300], "detail": {"spec": spec, "mask": mask}})
        return {"fp": fp, "nontrivial": False, "violations": viol, "counters": cnt, "max": worst, "sample": None}
    cnt["masked_runs"] += 1
    snap, _ = rec[0]
    if inj.used < 1 or list(snap["bad_atoms"]) != bad:
        return {"fp": fp, "nontrivial": False, "violations": [], "counters": cnt, "max": worst, "sample": None,
                "harness_error": f"mask not realised: wanted {bad}, trajectory has {snap['bad_atoms']} (draws intercepted: {inj.used})"}
    cnt["masks_realised"] += 1
    if tuple(res.atom_order) != tuple(ids):
        viol.append({"key": f"C25:atom-order-differs-from-register:{bk}", "msg": f"{fp}: {res.atom_order} vs {ids}"})
    # ---- dark atoms
    bidx = [i for i, b in enumerate(bad) if b]
    gidx = [i for i, b in enumerate(bad) if not b]
    for t in times:
        o = e2e.to_np(e2e.get_at(res, "occupation", t)).astype(float)
        c = e2e.to_np(e2e.get_at(res, "correlation_matrix", t)).astype(float)
        cnt["dark_atom_checks"] += 1
        if o.shape != (n,) or c.shape != (n, n):
            viol.append({"key": f"C25:results-do-not-cover-the-full-register:{bk}", "msg": f"{fp}: occupation shape {o.shape}, correlation {c.shape}"})
            break
        if np.abs(o[bidx]).max() > 1e-9 or np.abs(c[bidx, :]).max() > 1e-9 or np.abs(c[:, bidx]).max() > 1e-9:
            lit = [ids[i] for i in range(n) if abs(o[i]) > 1e-9 and bad[i]]
            dark_good = [ids[i] for i in gidx if abs(o[i]) < 1e-12]
            viol.append({"key": f"C25:bad-atom-is-not-dark:{bk}" + (":reordering-on" if case["reorder"] and bk == "mps" else ""),
                         "msg": f"{fp}: t={t} bad atoms with population {lit}; occupations {np.round(o, 5).tolist()}", "detail": {"spec": spec, "mask": mask}})
            break
    bs = e2e.get_at(res, "bitstrings", 1.0)
    if sum(bs.values()) != shots or any(len(s_) != n for s_ in bs) or any(s_[i] == "1" for s_ in bs for i in bidx):
        viol.append({"key": f"C25:bad-atom-measured-as-1:{bk}", "msg": f"{fp}: {dict(list(bs.items())[:4])}"})
    # ---- reduced register
    moved = False
    if viol:
        return {"fp": fp, "nontrivial": False, "violations": viol[:4], "counters": cnt, "max": worst, "sample": None}
    if len(gidx) == 0:
        pass
    else:
        try:
            if len(gidx) == 1 and bk == "mps":
                rB, rcfg = emu_sv.SVBackend, None  # emu-mps cannot run a single atom: the one-atom dynamics comes from emu-sv
                rM = emu_sv
                obs = [rM.Occupation(evaluation_times=times), rM.CorrelationMatrix(evaluation_times=times), rM.Energy(evaluation_times=times)]
                rcfg = emu_sv.SVConfig(gpu=False, krylov_tolerance=1e-10, dt=5.0, observables=obs, log_level=e2e.quiet())
                rres = emu_sv.SVBackend(seqgen.build(red), config=rcfg).run()
            else:
                rres = B(seqgen.build(red), config=config(False, case["reorder"])).run()
            cnt["reduced_runs"] += 1
        except Exception as e:
            return {"fp": fp, "nontrivial": False, "violations": [], "counters": cnt, "max": worst, "sample": None,
                    "harness_error": f"reduced-register run failed: {type(e).__name__}: {e}"[:300]}
        same_order = bk == "sv" or not case["reorder"] or len(gidx) <= 2
        tol = 1e-6 if same_order else 2e-2
        if case["leak"]:
            tol = max(tol, 1e-5)
        for t in times:
            o = e2e.to_np(e2e.get_at(res, "occupation", t)).astype(float)[gidx]
            c = e2e.to_np(e2e.get_at(res, "correlation_matrix", t)).astype(float)[np.ix_(gidx, gidx)]
            o2 = e2e.to_np(e2e.get_at(rres, "occupation", t)).astype(float)
            c2 = e2e.to_np(e2e.get_at(rres, "correlation_matrix", t)).astype(float)
            cnt["good_atom_values_compared"] += 2
            moved = moved or o2.max() > 1e-3
            d_o, d_c = float(np.abs(o - o2).max()), float(np.abs(c - c2).max())
            worst["good_atom_diff_over_tol"] = max(worst.get("good_atom_diff_over_tol", 0.0), max(d_o, d_c) / tol)
            if d_o > tol or d_c > tol:
                perm = np.abs(np.sort(o) - np.sort(o2)).max() < 1e-6 and d_o > 1e-4
                viol.append({"key": f"C25:good-atoms-differ-from-reduced-register:{bk}" + (":reordering-on" if case["reorder"] and bk == "mps" else "") + (":values-permuted" if perm else ""),
                             "msg": f"{fp}: t={t} good atoms {[ids[i] for i in gidx]}: {np.round(o, 6).tolist()} vs reduced {np.round(o2, 6).tolist()}", "detail": {"spec": spec, "mask": mask}})
                break
            if not case["leak"] and not (len(gidx) == 1 and bk == "mps"):
                E1, E2 = float(e2e.get_at(res, "energy", t)), float(e2e.get_at(rres, "energy", t))
                if abs(E1 - E2) > tol * 10 * (1 + abs(E2)):
                    viol.append({"key": f"C25:energy-differs-from-reduced-register:{bk}", "msg": f"{fp}: t={t} {E1!r} vs {E2!r}"})
                    break
    return {"fp": fp, "nontrivial": bool(moved and bidx and gidx), "violations": viol[:4], "counters": cnt, "max": worst,
            "sample": {"spec": spec, "mask": mask, "backend": bk, "reduced_spec_atoms": [a[0] for a in red["atoms"]]} if case["idx"] % 16 == 0 else None}
