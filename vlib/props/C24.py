"""C24 — noise-model channels act on the intended atomic levels.

Monitor: contract on `SequenceData.lindblad_ops` (and `get_lindblad_operators` per noise type) of the real
`PulserData`: the single-atom dissipator superoperator sum_k D[L_k] built from the emulator's operators must
equal the one built from pulser-core's own `HamiltonianData.lindblad_data` (operator names resolved in Pulser's
eigenbasis, then permuted to the emulator's level order).  The comparison is gauge invariant.
"""
import numpy as np

from vlib import seqgen

ID = "C24"
LEVEL = "exploration"
ENGINE = "adapter-oracle"
TECHNIQUE = "runtime contract on lindblad_ops: single-atom dissipator superoperator vs the one defined by pulser-core's lindblad_data"
LEVEL_TEXT = ("Exploration: all Lindbladian noise types and their combinations, random rates, random complex 2x2 and 3x3 effective "
              "operators incl. every single transition to/from the leakage level with distinct rates, ising and XY; the dissipator "
              "superoperator of the emulator's jump operators equals Pulser's to 1e-12 and the -i/2 sum L^dag L term matches.")
LEVEL_NOTE = ("Level order: emulator index 0 = state read as '0' (g resp. u), 1 = state read as '1' (r resp. d, Pulser's infer_one_state), "
              "2 = leakage x; Pulser's vectors are ordered (r,g[,x]) / (u,d[,x]).")
RULE = "(basis, dim, set of noise types, eff-op style); distinct = that + hash of rates; non-trivial = at least one jump operator with non-zero rate"
ASSUMPTIONS = ["pulser-core's HamiltonianData.lindblad_data is the definition of each channel",
               "a channel is identified with its dissipator superoperator (operators equal up to the usual gauge freedom are the same channel)"]
REQUIRED = ["repeat_requests_checked", "noise_models_checked", "dim3_checked", "xy_checked", "per_type_checked"]
BATCH = 12
STYLES = ["relaxation", "dephasing", "depolarizing", "eff-random", "eff-transition", "combo", "leak-transition", "leak-random", "leak-combo"]


def gen_cases(tier, seed):
    rng = np.random.default_rng(seed)
    reps = 2 if tier == "quick" else 30
    return [{"style": st, "basis": b, "seed": int(rng.integers(1 << 30)), "count": BATCH}
            for _ in range(reps) for st in STYLES for b in ("ising", "xy")]


def _unit(d, i, j):
    m = np.zeros((d, d), dtype=complex)
    m[i, j] = 1
    return m


def dissipator(ops, d):
    S = np.zeros((d * d, d * d), dtype=complex)
    I = np.eye(d)
    for L in ops:
        LdL = L.conj().T @ L
        S += np.kron(L, L.conj()) - 0.5 * np.kron(LdL, I) - 0.5 * np.kron(I, LdL.T)
    return S


def pulser_ops(ld, eigenbasis):
    """resolve pulser-core's LindbladData into matrices in Pulser's own level order"""
    d = len(eigenbasis)
    idx = {s: k for k, s in enumerate(eigenbasis)}

    def named(name):
        assert name.startswith("sigma_") and len(name) == 8, name
        return _unit(d, idx[name[6]], idx[name[7]])

    out = []
    for coeff, op in ld.local_collapse_ops:
        if isinstance(op, str):
            if op in ld.depolarizing_pauli_2ds:
                m = sum(c * named(nm) for c, nm in ld.depolarizing_pauli_2ds[op])
            else:
                m = named(op)
        else:
            m = np.asarray(op, dtype=complex)
        out.append(coeff * m)
    return out


def run_case(case):
    import torch
    from pulser import NoiseModel
    from pulser.backend import Occupation
    from emu_base.pulser_adapter import PulserData
    from emu_base.jump_lindblad_operators import get_lindblad_operators, compute_noise_from_lindbladians
    from emu_mps import MPSConfig
    from vlib import e2e

    rng = np.random.default_rng(case["seed"])
    cnt = {k: 0 for k in REQUIRED}
    cnt["rejected"] = 0
    viol, fps = [], []
    sample = None
    basis, style = case["basis"], case["style"]
    spec = seqgen.random_spec(rng, n=2, basis=basis, dmin=8.0, max_dur=40, min_dur=16, n_pulses=1, wf_kinds=["const"])
    if basis == "xy":
        spec["mag"] = [0.0, 0.0, 1.0]
    seq = seqgen.build(spec)
    for it in range(case["count"]):
        leak = style.startswith("leak")
        d = 3 if leak else 2
        kw = {}
        kinds = []
        if style in ("relaxation", "combo", "leak-combo") and basis == "ising":
            kw["relaxation_rate"] = float(10 ** rng.uniform(-2, 1))
            kinds.append("relaxation")
        if style in ("dephasing", "combo", "leak-combo"):
            kw["dephasing_rate"] = float(10 ** rng.uniform(-2, 1))
            kinds.append("dephasing")
        if style in ("depolarizing", "combo", "leak-combo"):
            kw["depolarizing_rate"] = float(10 ** rng.uniform(-2, 1))
            kinds.append("depolarizing")
        ops, rates = [], []
        if style in ("eff-random", "combo", "leak-random", "leak-combo"):
            for _ in range(int(rng.integers(1, 4))):
                ops.append(rng.normal(size=(d, d)) + 1j * rng.normal(size=(d, d)))
                rates.append(float(10 ** rng.uniform(-2, 1)))
        if style in ("eff-transition", "leak-transition"):
            pairs = [(i, j) for i in range(d) for j in range(d) if i != j]
            sel = [pairs[k] for k in rng.choice(len(pairs), size=int(rng.integers(1, len(pairs) + 1)), replace=False)]
            for (i, j) in sel:
                ops.append(_unit(d, i, j))
                rates.append(float(10 ** rng.uniform(-2, 1)))
        if leak and not ops:
            ops.append(_unit(3, 2, int(rng.integers(0, 2))))
            rates.append(float(10 ** rng.uniform(-2, 1)))
        if ops:
            kw["eff_noise_opers"] = [o for o in ops]
            kw["eff_noise_rates"] = rates
            kinds.append("eff_noise")
        if leak:
            kw["with_leakage"] = True
        if not kinds:
            kw["dephasing_rate"] = float(10 ** rng.uniform(-2, 1))
            kinds.append("dephasing")
        desc = f"{basis} dim={d} style={style} kinds={kinds}"
        try:
            nm = NoiseModel(**kw)
            cfg = MPSConfig(num_gpus_to_use=0, observables=[Occupation()], log_level=e2e.quiet(), noise_model=nm)
            pd = PulserData(sequence=seq, config=cfg, dt=10.0)
            ld = pd.hamiltonian.lindblad_data
            eig = list(pd.hamiltonian.basis_data.eigenbasis)
        except (ValueError, NotImplementedError, TypeError) as e:
            cnt["rejected"] += 1  # refused by pulser-core or by the adapter before any result: not judged here (C04)
            continue
        cnt["noise_models_checked"] += 1
        if d == 3:
            cnt["dim3_checked"] += 1
        if basis == "xy":
            cnt["xy_checked"] += 1
        if pd.dim != len(eig) or pd.dim != d:
            viol.append({"key": "C24:dimension-differs-from-pulser-basis", "msg": f"{desc}: {pd.dim} vs {eig}"})
            continue
        P = pulser_ops(ld, eig)
        # permutation Pulser order -> emulator order
        zero, one = ("g", "r") if basis == "ising" else ("u", "d")
        emu_order = [zero, one] + (["x"] if d == 3 else [])
        perm = [eig.index(s) for s in emu_order]
        P_emu = [m[np.ix_(perm, perm)] for m in P]
        E = [op.detach().numpy().copy() for op in pd.lindblad_ops]  # a copy: a later in-place edit of a shared tensor must not edit the record
        if any(op.shape != (d, d) for op in E):
            viol.append({"key": "C24:jump-operator-has-wrong-shape", "msg": f"{desc}: {[op.shape for op in E]}"})
            continue
        Sp, Se = dissipator(P_emu, d), dissipator(E, d)
        scale = 1e-30 + np.abs(Sp).max()
        err = np.abs(Sp - Se).max() / scale
        if err > 1e-12:
            # attribute to a noise type by comparing per-type dissipators
            culprit = []
            pos_ = 0
            for nt in ("dephasing", "relaxation", "depolarizing", "eff_noise"):  # pulser-core's construction order
                if nt not in kinds:
                    continue
                cnt_ = {"dephasing": sum(1 for s_ in eig if s_ in ("d", "r", "h")), "relaxation": 1, "depolarizing": 3, "eff_noise": len(rates)}[nt]
                P1 = P_emu[pos_:pos_ + cnt_]
                pos_ += cnt_
                try:
                    Et = [op.numpy() for op in get_lindblad_operators(noise_type=nt, noise_model=nm, interact_type="ising" if basis == "ising" else "XY", dim=d)]
                except Exception:
                    culprit.append(f"{nt}-raises")
                    continue
                if np.abs(dissipator(P1, d) - dissipator(Et, d)).max() / scale > 1e-12:
                    culprit.append(nt)
            involves_x = d == 3 and any(np.abs(o[2, :2]).max() > 0 or np.abs(o[:2, 2]).max() > 0 for o in ops)
            key = f"C24:dissipator-differs-from-pulser:{basis}:dim{d}:{'+'.join(culprit) or '?'}" + (":leakage-transitions" if involves_x else "")
            if culprit == ["eff_noise"] and basis == "ising" and d == 3 and involves_x:
                # known mechanism: only the (r,g) 2x2 block is re-based, entries coupling to x keep Pulser's row/column order
                defect = []
                for r_, o in zip(rates, ops):
                    m = np.sqrt(r_) * np.asarray(o, dtype=complex).copy()
                    m[:2, :2] = m[:2, :2][::-1, ::-1]
                    defect.append(m)
                Ee = [op.numpy() for op in get_lindblad_operators(noise_type="eff_noise", noise_model=nm, interact_type="ising", dim=3)]
                if len(Ee) == len(defect) and all(np.allclose(a, b, atol=1e-13) for a, b in zip(Ee, defect)):
                    key = "C24:eff-noise-3x3-only-2x2-block-rebased"
            viol.append({"key": key,
                         "msg": f"{desc}: rel. deviation {err:.3e}", "detail": {"noise_model_kwargs": {k: (np.asarray(v).tolist() if k == 'eff_noise_opers' else v) for k, v in kw.items()} if d * len(ops) < 20 else None}})
        # history independence: the same noise model asked again (and again) must give the same operators
        for rep_ in (2, 3):
            try:
                E_again = [op.detach().numpy().copy() for op in PulserData(sequence=seq, config=cfg, dt=10.0).lindblad_ops]
            except Exception as e:
                viol.append({"key": f"C24:second-request-raises:{type(e).__name__}", "msg": f"{desc}: {e}"[:200]})
                break
            cnt["repeat_requests_checked"] = cnt.get("repeat_requests_checked", 0) + 1
            if len(E_again) != len(E) or any(np.abs(a - b).max() > 0 for a, b in zip(E, E_again)):
                viol.append({"key": f"C24:jump-operators-depend-on-call-history:{basis}:dim{d}", "msg": f"{desc}: request #{rep_} for the same noise model returns different operators"})
                break
        # the effective non-Hermitian term used by emu-mps
        G = compute_noise_from_lindbladians([torch.tensor(o) for o in E], dim=d).numpy() if E else np.zeros((d, d))
        Gp = -0.5j * sum((m.conj().T @ m for m in P_emu), np.zeros((d, d), dtype=complex))
        # L^dag L is gauge dependent only through identity shifts, which the dissipator check covers; compare when no shift is involved
        if err <= 1e-12 and all(abs(np.trace(m)) < 1e-14 for m in P_emu) and all(abs(np.trace(m)) < 1e-14 for m in E):
            if np.abs(G - Gp).max() > 1e-12 * (1 + np.abs(Gp).max()):
                viol.append({"key": "C24:effective-noise-term-differs", "msg": f"{desc}: {np.abs(G - Gp).max():.3e}"})
        cnt["per_type_checked"] += len(kinds)
        if P:
            fps.append(f"{basis}:{d}:{'+'.join(kinds)}:{style}:{hash(tuple(np.round(rates, 6))) & 0xffff:x}")
        if sample is None:
            sample = {"basis": basis, "dim": d, "noise_kwargs": {k: (np.round(np.asarray(v), 4).tolist() if k == "eff_noise_opers" else v) for k, v in kw.items()},
                      "pulser_eigenbasis": eig, "n_jump_operators": len(E)}
    return {"fp": None, "nontrivial": False, "fps": fps, "n_eval": case["count"], "violations": viol[:6], "counters": cnt, "max": {},
            "sample": sample if case["idx"] % 6 == 0 else None}
