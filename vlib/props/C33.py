"""C33 — configuration safeguards are always applied.

Monitor: postconditions on every constructed `MPSConfig` over an exhaustive grid (precision x extra_krylov_tolerance,
autosave_dt values, all subsets of observables, solver x noise type), including configs obtained through
`with_changes`, the abstract-representation round trip and the copy a pickled solver carries; `create_impl` /
`run()` must refuse DMRG with any noise type.
"""
import itertools

import numpy as np

ID = "C33"
LEVEL = "fault_enumeration"
ENGINE = "unit-contracts"
TECHNIQUE = "runtime postconditions on MPSConfig construction paths (constructor, with_changes, serialisation round trip, pickled solver copy) over an exhaustive configuration grid"
LEVEL_TEXT = ("Exhaustive grid: precision in 1e-1..1e-14 x extra_krylov_tolerance in 1e-8..1 (effective product >= 1e-12), autosave_dt in "
              "{-1,0,5,10,10.0001,11,1e9,inf} (rejected iff <= 10), all 2^9 subsets of 9 observables (reordering off whenever a non-permutable "
              "one is present, also after with_changes / serialisation / pickling a live solver), solver x every noise type (DMRG refuses).")
LEVEL_NOTE = "Only the documented direction is asserted for reordering (non-permutable observable present => reordering off)."
RULE = "one case per grid cell; distinct = cell; non-trivial = the safeguard has to act (tolerance below the floor, interval <= 10, non-permutable observable, DMRG with noise)"
ASSUMPTIONS = ["permutable observables: bitstrings, occupation, correlation_matrix, energy, energy_variance, energy_second_moment (+ statistics)"]
REQUIRED = ["tolerance_cells", "autosave_cells", "observable_subsets", "derived_configs_checked", "dmrg_noise_cells"]
EXHAUSTIVE = {"quick": True, "thorough": True}
PERMUTABLE = {"bitstrings", "occupation", "correlation_matrix", "energy", "energy_variance", "energy_second_moment", "statistics"}


def gen_cases(tier, seed):
    cases = [{"kind": "tolerance"}, {"kind": "autosave"}]
    masks = list(range(2 ** 9))
    step = 64
    cases += [{"kind": "observables", "masks": masks[i:i + step]} for i in range(0, len(masks), step)]
    cases += [{"kind": "suffixes"}]
    cases += [{"kind": "dmrg", "noise": nz} for nz in ["none", "dephasing", "relaxation", "depolarizing", "eff", "leakage", "spam", "amplitude", "detuning", "doppler", "register"]]
    return cases


def _observables():
    import torch
    import emu_mps
    from emu_mps.observables import EntanglementEntropy

    psi = emu_mps.MPS.make(2, num_gpus_to_use=0, eigenstates=("r", "g"))
    op = emu_mps.MPO.from_operator_repr(eigenstates=("r", "g"), n_qudits=2, operations=[(1.0, [({"rr": 1.0}, {0})])])
    return [lambda: emu_mps.BitStrings(num_shots=10), lambda: emu_mps.Occupation(), lambda: emu_mps.CorrelationMatrix(), lambda: emu_mps.Energy(),
            lambda: emu_mps.EnergyVariance(), lambda: emu_mps.EnergySecondMoment(), lambda: emu_mps.StateResult(), lambda: emu_mps.Fidelity(psi),
            lambda: emu_mps.Expectation(op), lambda: EntanglementEntropy(0)][:9] + [lambda: EntanglementEntropy(0)]


def run_case(case):
    import logging
    import pickle

    import emu_mps
    from emu_mps import MPSConfig
    from emu_mps.solver import Solver

    cnt = {k: 0 for k in REQUIRED}
    viol, fps = [], []
    q = logging.CRITICAL
    kind = case["kind"]
    if kind == "tolerance":
        for pe, ke in itertools.product(range(-14, 0), range(-8, 1)):
            for mp, mk in ((1.0, 1.0), (3.3, 0.7)):
                p, k = mp * 10.0 ** pe, mk * 10.0 ** ke
                try:
                    cfg = MPSConfig(precision=p, extra_krylov_tolerance=k, log_level=q, num_gpus_to_use=0)
                except Exception as e:
                    viol.append({"key": f"C33:config-construction-raises:{type(e).__name__}", "msg": f"precision={p} extra={k}: {e}"[:200]})
                    continue
                cnt["tolerance_cells"] += 1
                eff = cfg.precision * cfg.extra_krylov_tolerance
                if eff < 1e-12 * (1 - 1e-12):
                    viol.append({"key": "C33:effective-krylov-tolerance-below-floor", "msg": f"precision={p} extra={k}: effective {eff!r}"})
                if p * k >= 1e-12 and abs(cfg.extra_krylov_tolerance - k) > 1e-15 * k:
                    viol.append({"key": "C33:krylov-tolerance-changed-although-above-floor", "msg": f"precision={p} extra={k} -> {cfg.extra_krylov_tolerance}"})
                if cfg.precision != p:
                    viol.append({"key": "C33:precision-changed", "msg": f"{p} -> {cfg.precision}"})
                # derived configs keep the floor
                for how, mk_ in (("with_changes", lambda c: c.with_changes(dt=5.0)), ("repr-round-trip", lambda c: MPSConfig.from_abstract_repr(c.to_abstract_repr()))):
                    try:
                        c2 = mk_(cfg)
                        cnt["derived_configs_checked"] += 1
                        if c2.precision * c2.extra_krylov_tolerance < 1e-12 * (1 - 1e-12):
                            viol.append({"key": f"C33:effective-krylov-tolerance-below-floor:after-{how}", "msg": f"precision={p} extra={k}"})
                    except Exception as e:
                        if how == "with_changes":
                            viol.append({"key": f"C33:{how}-raises:{type(e).__name__}", "msg": f"{e}"[:200]})
                if p * k < 1e-12:
                    fps.append(f"tol:{pe}:{ke}:{mp}")
    elif kind == "autosave":
        for v in [-1.0, 0.0, 5.0, 9.999999, 10.0, 10.0001, 11.0, 60.0, 1e9, float("inf")]:
            cnt["autosave_cells"] += 1
            try:
                cfg = MPSConfig(autosave_dt=v, log_level=q, num_gpus_to_use=0)
                ok = True
            except Exception:
                ok = False
            if ok and v <= 10:
                viol.append({"key": "C33:autosave-interval-of-10s-or-less-accepted", "msg": f"autosave_dt={v}"})
            if not ok and v > 10:
                viol.append({"key": "C33:valid-autosave-interval-rejected", "msg": f"autosave_dt={v}"})
            if v <= 10:
                fps.append(f"autosave:{v}")
            if ok:
                try:
                    MPSConfig(log_level=q, num_gpus_to_use=0).with_changes(autosave_dt=5.0)
                    viol.append({"key": "C33:autosave-interval-of-10s-or-less-accepted:via-with_changes", "msg": "with_changes(autosave_dt=5)"})
                except Exception:
                    pass
                cnt["derived_configs_checked"] += 1
    elif kind == "suffixes":
        # tags are '<base tag>_<suffix>': a non-permutable observable stays non-permutable whatever words its suffix (or a custom base tag) contains
        import torch
        from pulser.backend import Observable
        from emu_mps.observables import EntanglementEntropy

        psi = emu_mps.MPS.make(2, num_gpus_to_use=0, eigenstates=("r", "g"))
        op = emu_mps.MPO.from_operator_repr(eigenstates=("r", "g"), n_qudits=2, operations=[(1.0, [({"rr": 1.0}, {0})])])

        class LocalEnergy(Observable):  # a user-defined observable whose base tag merely contains a whitelisted word
            @property
            def _base_tag(self):
                return "local_energy"

            def apply(self, *, config, state, hamiltonian, **kw):
                return torch.tensor(0.0)

        nonperm_makers = {"state": lambda sfx: emu_mps.StateResult(tag_suffix=sfx), "fidelity": lambda sfx: emu_mps.Fidelity(psi, tag_suffix=sfx),
                          "expectation": lambda sfx: emu_mps.Expectation(op, tag_suffix=sfx), "entanglement_entropy": lambda sfx: EntanglementEntropy(0, tag_suffix=sfx),
                          "local_energy": lambda sfx: LocalEnergy(tag_suffix=sfx)}
        for name, mk in nonperm_makers.items():
            for sfx in [None, "energy", "occupation", "after_occupation", "bitstrings", "correlation_matrix", "energy_variance", "a", "final", "statistics"]:
                for extra in (None, "occupation", "energy-suffixed"):
                    try:
                        obs = [mk(sfx)]
                    except Exception:
                        continue
                    if extra == "occupation":
                        obs.append(emu_mps.Occupation())
                    elif extra == "energy-suffixed":
                        obs.insert(0, emu_mps.Energy(tag_suffix="x"))
                    try:
                        cfg = MPSConfig(observables=obs, optimize_qubit_ordering=True, log_level=q, num_gpus_to_use=0)
                    except Exception as e:
                        viol.append({"key": f"C33:config-with-suffixed-observable-raises:{type(e).__name__}", "msg": f"{name} suffix={sfx}: {e}"[:200]})
                        continue
                    cnt["observable_subsets"] += 1
                    fps.append(f"sfx:{name}:{sfx}:{extra}")
                    if cfg.optimize_qubit_ordering:
                        viol.append({"key": "C33:reordering-left-on-with-non-permutable-observable:tag-contains-a-permutable-word", "msg": f"tags {[o.tag for o in obs]}"})
    elif kind == "observables":
        makers = _observables()[:9]
        for mask in case["masks"]:
            obs = [makers[i]() for i in range(9) if (mask >> i) & 1]
            tags = {o._base_tag for o in obs}
            nonperm = tags - PERMUTABLE
            for asked, order in ((True, "listed"), (True, "reversed"), (True, "rotated"), (False, "listed")):
                if order == "reversed":
                    obs = obs[::-1]  # the list now ends on a permutable observable whenever one is present
                elif order == "rotated" and len(obs) > 1:
                    k_ = (mask % (len(obs) - 1)) + 1
                    obs = obs[k_:] + obs[:k_]
                cfg = MPSConfig(observables=obs, optimize_qubit_ordering=asked, log_level=q, num_gpus_to_use=0)
                cnt["observable_subsets"] += 1
                if nonperm and cfg.optimize_qubit_ordering:
                    viol.append({"key": "C33:reordering-left-on-with-non-permutable-observable", "msg": f"observables {sorted(tags)}"})
                if not asked and cfg.optimize_qubit_ordering:
                    viol.append({"key": "C33:reordering-switched-on-although-disabled-by-user", "msg": f"observables {sorted(tags)}"})
                if asked and not nonperm and not cfg.optimize_qubit_ordering:
                    cnt["reordering_disabled_without_need"] = cnt.get("reordering_disabled_without_need", 0) + 1
                if asked and nonperm:
                    fps.append(f"obs:{mask}")
                    # adding the non-permutable observable later must switch it off as well
                    perm_only = [o for o in obs if o._base_tag in PERMUTABLE]
                    base = MPSConfig(observables=perm_only, optimize_qubit_ordering=True, log_level=q, num_gpus_to_use=0)
                    c2 = base.with_changes(observables=obs)
                    cnt["derived_configs_checked"] += 1
                    if c2.optimize_qubit_ordering:
                        viol.append({"key": "C33:reordering-left-on-with-non-permutable-observable:after-with_changes", "msg": f"observables {sorted(tags)}"})
        # the copy of the config a pickled live solver carries
        import pulser
        from emu_base.pulser_adapter import PulserData
        from emu_mps.mps_backend_impl import create_impl

        reg = pulser.Register({"a": (0, 0), "b": (8, 0), "c": (4, 7)})
        seq = pulser.Sequence(reg, pulser.devices.MockDevice)
        seq.declare_channel("g", "rydberg_global")
        seq.add(pulser.Pulse.ConstantPulse(40, 3.0, 0.0, 0.0), "g")
        for mask in case["masks"][:6]:
            obs = [makers[i]() for i in range(9) if (mask >> i) & 1] or [makers[1]()]
            tags = {o._base_tag for o in obs}
            cfg = MPSConfig(observables=obs, optimize_qubit_ordering=True, log_level=q, num_gpus_to_use=0, precision=1e-8, extra_krylov_tolerance=1e-8)
            impl = create_impl(next(iter(PulserData(sequence=seq, config=cfg, dt=cfg.dt).get_sequences())), cfg)
            impl.init()
            impl2 = pickle.loads(pickle.dumps(impl))
            cnt["derived_configs_checked"] += 1
            c3 = impl2.config
            if (tags - PERMUTABLE) and c3.optimize_qubit_ordering:
                viol.append({"key": "C33:reordering-left-on-with-non-permutable-observable:in-pickled-solver", "msg": f"{sorted(tags)}"})
            if c3.precision * c3.extra_krylov_tolerance < 1e-12 * (1 - 1e-12):
                viol.append({"key": "C33:effective-krylov-tolerance-below-floor:in-pickled-solver", "msg": f"{c3.precision} {c3.extra_krylov_tolerance}"})
    else:
        import pulser
        from pulser import NoiseModel

        nz = case["noise"]
        nms = {"none": None, "dephasing": NoiseModel(dephasing_rate=0.1), "relaxation": NoiseModel(relaxation_rate=0.1), "depolarizing": NoiseModel(depolarizing_rate=0.1),
               "eff": NoiseModel(eff_noise_rates=[0.1], eff_noise_opers=[np.array([[0, 1.0], [0, 0]])]),
               "leakage": NoiseModel(eff_noise_rates=[0.1], eff_noise_opers=[np.diag([0.0, 0, 1])], with_leakage=True),
               "spam": NoiseModel(state_prep_error=0.1, p_false_pos=0.01, p_false_neg=0.01), "amplitude": NoiseModel(amp_sigma=0.05, laser_waist=100.0),
               "detuning": NoiseModel(detuning_sigma=0.3), "doppler": NoiseModel(temperature=30.0),
               "register": NoiseModel(temperature=30.0, trap_waist=1.0, trap_depth=150.0, disable_doppler=True)}
        reg = pulser.Register({"a": (0, 0), "b": (8, 0), "c": (16, 0)})
        seq = pulser.Sequence(reg, pulser.devices.MockDevice)
        seq.declare_channel("g", "rydberg_global")
        seq.add(pulser.Pulse.ConstantPulse(60, 4.0, 1.0, 0.0), "g")
        for solver in (Solver.DMRG, "dmrg", Solver.TDVP):
            kw = dict(solver=solver, observables=[emu_mps.Occupation()], log_level=q, num_gpus_to_use=0, dt=10.0)
            if nms[nz] is not None:
                kw.update(noise_model=nms[nz], n_trajectories=1)
            cnt["dmrg_noise_cells"] += 1
            try:
                cfg = MPSConfig(**kw)
                res = emu_mps.MPSBackend(seq, config=cfg).run()
                returned = True
            except Exception as e:
                returned = False
                err = e
            is_dmrg = solver in (Solver.DMRG, "dmrg")
            if is_dmrg and nz != "none" and returned:
                viol.append({"key": f"C33:dmrg-accepts-noise-model:{nz}", "msg": f"solver={solver!r} noise={nz}: run() returned"})
            if is_dmrg and nz == "none" and not returned:
                viol.append({"key": "C33:dmrg-refuses-noiseless-run", "msg": f"{err}"[:200]})
            if is_dmrg and nz != "none":
                fps.append(f"dmrg:{nz}:{solver!r}")
    return {"fp": None, "nontrivial": False, "fps": fps, "n_eval": max(1, sum(cnt.values())), "violations": viol[:6], "counters": cnt, "max": {},
            "sample": {"kind": kind, "cells": {k: v for k, v in cnt.items() if v}} if case["idx"] % 4 == 0 else None}
