"""C13 — every reported observable equals its definition on the current state.

Monitor: (a) the observables a real `MPSConfig` / `SVConfig` holds (i.e. the monkey-patched implementations the
backends call) are applied directly to random states of each representation - normalised, unnormalised, MPS with
the orthogonality centre anywhere or undeclared, MPS/MPO padded with dark atoms - and compared with the dense
definitions; (b) physical ranges; (c) in situ: short emu-mps / emu-sv runs with the observables listed in random
order (each observable sees the state as its predecessors left it), stored values recomputed from exact evolution;
(d) hook around `MPSBackendImpl.fill_results` in quantum-jump runs with dark atoms: what the call stores must equal
the definition on the solver's raw state, normalised and padded with dark atoms.
"""
import numpy as np

from vlib import e2e, ref, seqgen, tn

ID = "C13"
LEVEL = "exploration"
ENGINE = "e2e-reference"
TECHNIQUE = "differential monitor: backend-patched Observable.apply on random states/Hamiltonians vs dense definitions; range invariants; in-situ runs with shuffled observable order vs exact evolution"
LEVEL_TEXT = ("Exploration: occupation, correlation matrix, energy, second moment, variance, fidelity, expectation, entanglement entropy taken "
              "from real configs and applied to random MPS (2-8 atoms, complex, centre at any site or undeclared, unnormalised, dark-atom "
              "padded), state vectors and density matrices with random Hamiltonian parameters; compared with the dense definition and "
              "range-checked; plus short real runs with the observable list in random order.")
LEVEL_NOTE = "For a state handed over unnormalised the literal <phi|O|phi> is the definition (what Pulser's own observables return); the backends normalise before calling them, which is what (c) exercises."
RULE = "(representation, N, centre, normalised?, dark mask, observable order); distinct = that + hash; non-trivial = bond dimension > 1 / entangled state and complex amplitudes"
ASSUMPTIONS = ["dense definitions from vlib/ref.py; H^2 expectation on MPS carries the 1e-5 MPO truncation (tolerance 1e-4*(1+|H|^2))",
               "variance >= -1e-6*(1+E^2) (rounding / MPO truncation)"]
REQUIRED = ["mps_direct", "sv_direct", "dm_direct", "dark_padded", "insitu_runs", "range_checks", "nonzero_centre_cases", "hooked_fill_results", "hooked_unnormalised_states"]
SHARD_TIMEOUT = {"quick": 1700, "thorough": 5 * 3600}


def gen_cases(tier, seed):
    rng = np.random.default_rng(seed)
    a = 36 if tier == "quick" else 500
    b = 12 if tier == "quick" else 200
    c = 12 if tier == "quick" else 160
    return ([{"kind": "direct", "seed": int(rng.integers(1 << 30)), "count": 6} for _ in range(a)]
            + [{"kind": "insitu", "seed": int(rng.integers(1 << 30)), "backend": "mps" if i % 3 else "sv"} for i in range(b)]
            + [{"kind": "hooked", "seed": int(rng.integers(1 << 30)), "dark": ["first", "middle", "last", "none"][i % 4], "noisy": bool(i % 3 != 2)} for i in range(c)])


def _params(rng, n):
    om = rng.uniform(0, 10, size=n) * (rng.random(n) > 0.2)
    de = rng.uniform(-15, 15, size=n)
    ph = rng.uniform(0, 6.28, size=n) * (rng.random() < 0.6)
    U = np.zeros((n, n))
    iu = np.triu_indices(n, 1)
    U[iu] = 10 ** rng.uniform(-1, 1.7, size=len(iu[0])) * (rng.random(len(iu[0])) > 0.2)
    return om, de, ph, U + U.T


def _direct(case):
    import torch
    from emu_base import HamiltonianType
    from emu_mps import MPSConfig, MPS, MPO, Occupation, CorrelationMatrix, Energy, EnergySecondMoment, EnergyVariance, Fidelity, Expectation
    from emu_mps.observables import EntanglementEntropy
    import emu_mps.hamiltonian as hm
    from emu_mps.utils import extended_mps_factors, extended_mpo_factors
    from emu_sv import SVConfig, StateVector, DensityMatrix, DenseOperator
    from emu_sv.hamiltonian import RydbergHamiltonian
    from emu_sv.lindblad_operator import RydbergLindbladian
    import emu_sv

    rng = np.random.default_rng(case["seed"])
    cnt = {k: 0 for k in REQUIRED}
    viol, fps = [], []
    worst = {"rel_err": 0.0}
    sample = None

    def chk(name, got, want, tol, desc):
        got = np.asarray(e2e.to_np(got), dtype=complex)
        want = np.asarray(want, dtype=complex)
        if got.shape != want.shape:
            viol.append({"key": f"C13:{name}-shape-differs", "msg": f"{desc}: {got.shape} vs {want.shape}"})
            return
        e = float(np.abs(got - want).max()) / (1.0 + float(np.abs(want).max()))
        worst["rel_err"] = max(worst["rel_err"], e / tol * 1e-9)
        if not e <= tol:
            viol.append({"key": f"C13:{name}-differs-from-definition", "msg": f"{desc}: rel.err {e:.3e} (tol {tol:.1e})"})

    def ranges(name, occ, corr, var, desc, nrm2):
        cnt["range_checks"] += 1
        o, c = np.real(e2e.to_np(occ)), np.real(e2e.to_np(corr))
        if o.min() < -1e-9 * nrm2 or o.max() > nrm2 * (1 + 1e-9) or c.min() < -1e-9 * nrm2 or c.max() > nrm2 * (1 + 1e-9):
            viol.append({"key": f"C13:{name}-occupation-or-correlation-outside-range", "msg": f"{desc}: occ [{o.min()},{o.max()}] corr [{c.min()},{c.max()}] norm^2 {nrm2}"})

    for _ in range(case["count"]):
        n = int(rng.integers(2, 9))
        om, de, ph, U = _params(rng, n)
        Hd = ref.dense_hamiltonian(om, de, ph, U)
        hn = 1.0 + float(np.linalg.norm(Hd, 2))
        # ------------------------------------------------ MPS
        chi = int(rng.choice([1, 2, 4, 8]))
        normalised = bool(rng.random() < 0.5)
        centre = None if rng.random() < 0.25 else int(rng.integers(n))
        psi = tn.rand_mps(rng, n, 2, chi, basis=("r", "g"), precision=1e-9, real=bool(rng.random() < 0.15))
        psi.orthogonalize(0)
        # unnormalised means a norm of order one (0.5..2), not the astronomically large norm of a raw random tensor train
        psi = ((1.0 if normalised else float(rng.uniform(0.5, 2.0))) / psi.norm()) * psi
        psi.orthogonality_center = 0
        if centre is not None:
            psi.orthogonalize(centre)
            if centre > 0:
                cnt["nonzero_centre_cases"] += 1
        else:
            psi.orthogonality_center = None  # undeclared centre (the factors happen to be canonical at 0; the code must not rely on it)
            for i_ in range(n - 1):  # make it genuinely non-canonical with a gauge transformation on every bond
                b_ = psi.factors[i_].shape[2]
                g = torch.tensor(rng.normal(size=(b_, b_)) + 1j * rng.normal(size=(b_, b_)) + 2 * np.eye(b_), dtype=torch.complex128)
                psi.factors[i_] = torch.tensordot(psi.factors[i_], g, dims=1)
                psi.factors[i_ + 1] = torch.tensordot(torch.linalg.inv(g), psi.factors[i_ + 1], dims=1)
        v = tn.dense(psi)
        nrm2 = float(np.vdot(v, v).real)
        mpo = hm.make_H(interaction_matrix=torch.tensor(U), hamiltonian_type=HamiltonianType.Rydberg, dim=2, num_gpus_to_use=0)
        hm.update_H(hamiltonian=mpo, omega=torch.tensor(om, dtype=torch.complex128), delta=torch.tensor(de, dtype=torch.complex128),
                    phi=torch.tensor(ph, dtype=torch.complex128), noise=torch.zeros(2, 2, dtype=torch.complex128))
        phi_state = tn.rand_mps(rng, n, 2, 2, basis=("r", "g"))
        phi_state.orthogonalize(0)
        phi_state = (1 / phi_state.norm()) * phi_state
        vphi = tn.dense(phi_state)
        opd = rng.normal(size=(2, 2)) + 1j * rng.normal(size=(2, 2))
        q_t = int(rng.integers(n))
        op_mpo = MPO.from_operator_repr(eigenstates=("r", "g"), n_qudits=n,
                                        operations=[(1.0, [({"gg": complex(opd[0, 0]), "gr": complex(opd[0, 1]), "rg": complex(opd[1, 0]), "rr": complex(opd[1, 1])}, {q_t})])])
        cut = int(rng.integers(n - 1))
        obs = [Occupation(), CorrelationMatrix(), Energy(), EnergySecondMoment(), EnergyVariance(), Fidelity(phi_state), Expectation(op_mpo), EntanglementEntropy(cut)]
        order = [int(x) for x in rng.permutation(len(obs))]
        cfg = MPSConfig(observables=[obs[i] for i in order], log_level=e2e.quiet(), num_gpus_to_use=0)
        desc = f"mps n={n} chi<={chi} normalised={normalised} centre={centre} order={[type(obs[i]).__name__[:6] for i in order]}"
        R = e2e.ref_observables(v, Hd, n, 2)
        want = {"occupation": R["occupation"] * nrm2, "correlation_matrix": R["correlation_matrix"] * nrm2, "energy": R["energy"] * nrm2,
                "energy_second_moment": R["energy_second_moment"] * nrm2,
                "energy_variance": R["energy_second_moment"] * nrm2 - (R["energy"] * nrm2) ** 2,
                "fidelity": abs(np.vdot(vphi, v)) ** 2, "expectation": np.vdot(v, tn.site_op(opd, q_t, n, 2) @ v),
                "entanglement_entropy": tn.entropy_dense(v, cut, n, 2)}
        tols = {"occupation": 1e-9, "correlation_matrix": 1e-9, "energy": 1e-9 * hn, "energy_second_moment": 1e-4 * hn * hn, "energy_variance": 1e-4 * hn * hn,
                "fidelity": 1e-9, "expectation": 1e-9, "entanglement_entropy": 1e-8 * (1 + abs(np.log(nrm2)))}
        got = {}
        try:
            for o in cfg.observables:  # applied in the shuffled order to the SAME state object, as the backend does
                got[o.tag] = o.apply(config=cfg, state=psi, hamiltonian=mpo)
                cnt["mps_direct"] += 1
                chk(f"mps-{o.tag}", got[o.tag], want[o.tag], tols[o.tag] * max(1.0, nrm2), desc)
            ranges("mps", got["occupation"], got["correlation_matrix"], got["energy_variance"], desc, nrm2)
            if normalised and float(np.real(e2e.to_np(got["energy_variance"]))) < -1e-6 * (1 + R["energy"] ** 2) - 1e-4 * hn * hn:
                viol.append({"key": "C13:mps-negative-variance", "msg": f"{desc}: {got['energy_variance']}"})
            if normalised and not (-1e-9 <= float(got["entanglement_entropy"]) <= np.log(2) * min(cut + 1, n - cut - 1) + 1e-9):
                viol.append({"key": "C13:mps-entropy-outside-range", "msg": f"{desc}: {got['entanglement_entropy']}"})
            if np.abs(tn.dense(psi) - v).max() > 1e-9 * (1 + np.abs(v).max()):
                viol.append({"key": "C13:observable-changed-the-state", "msg": desc})
        except Exception as e:
            import traceback

            fr = [f.name for f in traceback.extract_tb(e.__traceback__) if "/emu_" in f.filename]
            viol.append({"key": f"C13:mps-observable-raises:{type(e).__name__}:{fr[-1] if fr else '?'}", "msg": f"{desc}: {e}"[:300]})
        # ------------------------------------------------ dark-atom padding (as fill_results does)
        try:
            m = int(rng.integers(1, 4))
            mask = np.ones(n + m, dtype=bool)
            mask[rng.choice(n + m, size=m, replace=False)] = False
            where = torch.tensor(mask)
            st0 = tn.rand_mps(rng, n, 2, chi, basis=("r", "g"))
            c0 = int(rng.integers(n))
            st0.orthogonalize(c0)
            st0 = (1 / st0.norm()) * st0
            from emu_mps.utils import get_extended_site_index

            full_state = MPS(extended_mps_factors(st0.factors, where), num_gpus_to_use=None,
                             orthogonality_center=get_extended_site_index(where, st0.orthogonality_center), eigenstates=st0.eigenstates)
            full_mpo = MPO(extended_mpo_factors(mpo.factors, where))
            v0 = tn.dense(st0)
            # dense extension: dark atoms in |g>
            vfull = np.zeros(2 ** (n + m), dtype=complex)
            Hfull = np.zeros((2 ** (n + m), 2 ** (n + m)), dtype=complex)
            good = [i for i in range(n + m) if mask[i]]
            idx_small = np.arange(2 ** n)
            bits = ((idx_small[:, None] >> (n - 1 - np.arange(n))) & 1)
            big = np.zeros(2 ** n, dtype=int)
            for k_, g in enumerate(good):
                big += bits[:, k_] << (n + m - 1 - g)
            vfull[big] = v0
            Hfull[np.ix_(big, big)] = Hd
            # identity on the dark atoms: H_full = H (x) I; only the dark-in-|g> block matters for expectation values on vfull
            Rf = e2e.ref_observables(vfull, Hfull, n + m, 2)
            cfg2 = MPSConfig(observables=[CorrelationMatrix(), Occupation(), Energy(), EnergyVariance()], log_level=e2e.quiet(), num_gpus_to_use=0)
            desc2 = f"dark-padded n={n}+{m} mask={mask.astype(int).tolist()} centre={c0}"
            for o in cfg2.observables:
                val = o.apply(config=cfg2, state=full_state, hamiltonian=full_mpo)
                cnt["dark_padded"] += 1
                w_ = Rf[o.tag]
                chk(f"dark-{o.tag}", val, w_, {"occupation": 1e-9, "correlation_matrix": 1e-9, "energy": 1e-9 * hn, "energy_variance": 1e-4 * hn * hn}[o.tag], desc2)
                if o.tag == "occupation" and np.abs(e2e.to_np(val)[~mask]).max() > 1e-12:
                    viol.append({"key": "C13:dark-atom-has-occupation", "msg": desc2})
        except Exception as e:
            import traceback

            fr = [f.name for f in traceback.extract_tb(e.__traceback__) if "/emu_" in f.filename]
            viol.append({"key": f"C13:dark-padding-raises:{type(e).__name__}:{fr[-1] if fr else '?'}", "msg": f"n={n}: {e}"[:300]})
        # ------------------------------------------------ state vector / density matrix
        if n <= 7:
            try:
                x = rng.normal(size=2 ** n) + 1j * rng.normal(size=2 ** n)
                if rng.random() < 0.5:
                    x /= np.linalg.norm(x)
                nx = float(np.vdot(x, x).real)
                sv = StateVector(torch.tensor(x), gpu=False)
                ham = RydbergHamiltonian(torch.tensor(om, dtype=torch.complex128), torch.tensor(de, dtype=torch.complex128), torch.tensor(ph, dtype=torch.complex128),
                                         torch.tensor(U), torch.device("cpu"))
                y = rng.normal(size=2 ** n) + 1j * rng.normal(size=2 ** n)
                y /= np.linalg.norm(y)
                Md = rng.normal(size=(2 ** n, 2 ** n)) + 1j * rng.normal(size=(2 ** n, 2 ** n))
                obs_sv = [emu_sv.Occupation(), emu_sv.CorrelationMatrix(), emu_sv.Energy(), emu_sv.EnergySecondMoment(), emu_sv.EnergyVariance(),
                          emu_sv.Fidelity(StateVector(torch.tensor(y), gpu=False)), emu_sv.Expectation(DenseOperator(torch.tensor(Md), gpu=False))]
                cfgs = SVConfig(observables=[obs_sv[i] for i in rng.permutation(len(obs_sv))], log_level=e2e.quiet(), gpu=False)
                Rs = e2e.ref_observables(x, Hd, n, 2)
                wants = {"occupation": Rs["occupation"] * nx, "correlation_matrix": Rs["correlation_matrix"] * nx, "energy": Rs["energy"] * nx,
                         "energy_second_moment": Rs["energy_second_moment"] * nx, "energy_variance": Rs["energy_second_moment"] * nx - (Rs["energy"] * nx) ** 2,
                         "fidelity": abs(np.vdot(y, x)) ** 2, "expectation": np.vdot(x, Md @ x)}
                descs = f"sv n={n} normalised={abs(nx-1)<1e-12}"
                gots = {}
                for o in cfgs.observables:
                    gots[o.tag] = o.apply(config=cfgs, state=sv, hamiltonian=ham)
                    cnt["sv_direct"] += 1
                    chk(f"sv-{o.tag}", gots[o.tag], wants[o.tag], 1e-10 * (hn * hn if "energy" in o.tag else 1.0) * max(1.0, nx), descs)
                ranges("sv", gots["occupation"], gots["correlation_matrix"], gots["energy_variance"], descs, nx)
                if n <= 5:
                    z = rng.normal(size=(2 ** n, 2 ** n)) + 1j * rng.normal(size=(2 ** n, 2 ** n))
                    rho = z @ z.conj().T
                    rho /= np.trace(rho).real
                    dm = DensityMatrix(torch.tensor(rho), gpu=False)
                    lind = RydbergLindbladian(torch.tensor(om, dtype=torch.complex128), torch.tensor(de, dtype=torch.complex128), torch.tensor(ph, dtype=torch.complex128),
                                              [torch.tensor(rng.normal(size=(2, 2)) + 0j)], torch.tensor(U), torch.device("cpu"))
                    cfgd = SVConfig(observables=[emu_sv.CorrelationMatrix(), emu_sv.Occupation(), emu_sv.EnergyVariance(), emu_sv.Energy(), emu_sv.EnergySecondMoment()],
                                    log_level=e2e.quiet(), gpu=False)
                    Rd = e2e.ref_observables(rho, Hd, n, 2)
                    for o in cfgd.observables:
                        val = o.apply(config=cfgd, state=dm, hamiltonian=lind)
                        cnt["dm_direct"] += 1
                        chk(f"dm-{o.tag}", val, Rd[o.tag], 1e-10 * (hn * hn if "energy" in o.tag else 1.0), f"dm n={n}")
                        if o.tag == "energy_variance" and float(e2e.to_np(val)) < -1e-6 * (1 + Rd["energy"] ** 2):
                            viol.append({"key": "C13:dm-negative-variance", "msg": f"n={n}: {val}"})
            except Exception as e:
                import traceback

                fr = [f.name for f in traceback.extract_tb(e.__traceback__) if "/emu_" in f.filename]
                viol.append({"key": f"C13:sv-observable-raises:{type(e).__name__}:{fr[-1] if fr else '?'}", "msg": f"n={n}: {e}"[:300]})
        if chi > 1:
            fps.append(f"direct:{n}:{chi}:{centre}:{normalised}:{tuple(order)}")
        if sample is None:
            sample = {"kind": "direct", "n": n, "mps_max_bond": chi, "centre": centre, "normalised": normalised, "observable_order": [type(obs[i]).__name__ for i in order]}
    return {"fp": None, "nontrivial": False, "fps": fps, "n_eval": case["count"], "violations": viol[:8], "counters": cnt, "max": worst,
            "sample": sample if case["idx"] % 9 == 0 else None}


def _insitu(case):
    import emu_mps
    import emu_sv

    rng = np.random.default_rng(case["seed"])
    cnt = {k: 0 for k in REQUIRED}
    viol, worst = [], {}
    mps = case["backend"] == "mps"
    n = int(rng.integers(3, 6))
    spec = seqgen.random_spec(rng, n=n, basis="ising", dmin=7.8, spread=0.6, local=bool(rng.random() < 0.4), max_dur=100, min_dur=30,
                              n_pulses=int(rng.integers(1, 3)), amp_max=8.0, det_max=10.0, shuffle_ids=True, phase_mode="random")
    seq = seqgen.build(spec)
    times = [0.0, 0.4, 0.75, 1.0]
    mod = emu_mps if mps else emu_sv
    obs = [mod.Occupation(evaluation_times=times), mod.CorrelationMatrix(evaluation_times=times), mod.Energy(evaluation_times=times),
           mod.EnergyVariance(evaluation_times=times), mod.EnergySecondMoment(evaluation_times=times), mod.BitStrings(evaluation_times=times, num_shots=20)]
    if mps:
        from emu_mps.observables import EntanglementEntropy

        obs.append(EntanglementEntropy(int(rng.integers(n - 1)), evaluation_times=times))
    order = [int(x) for x in rng.permutation(len(obs))]
    obs = [obs[i] for i in order]
    fp = f"insitu:{case['backend']}:n{n}:" + ">".join(o.tag[:5] for o in obs)
    try:
        if mps:
            cfg = emu_mps.MPSConfig(dt=2.0, precision=1e-10, observables=obs, log_level=e2e.quiet(), num_gpus_to_use=0, optimize_qubit_ordering=bool(rng.random() < 0.5))
            with e2e.recording(emu_mps.MPSBackend) as rec:
                results = emu_mps.MPSBackend(seq, config=cfg).run()
            tol, umode = 2e-4, "mid"
        else:
            cfg = emu_sv.SVConfig(dt=2.0, krylov_tolerance=1e-10, observables=obs, log_level=e2e.quiet(), gpu=False)
            with e2e.recording(emu_sv.SVBackend) as rec:
                results = emu_sv.SVBackend(seq, config=cfg).run()
            tol, umode = 1e-6, "start"
    except Exception as e:
        viol.append({"key": f"C13:insitu-run-raises:{type(e).__name__}", "msg": f"{fp}: {e}"[:300], "detail": {"spec": spec}})
        cnt["insitu_runs"] += 1
        return {"fp": fp, "nontrivial": False, "violations": viol, "counters": cnt, "max": worst, "sample": None}
    cnt["insitu_runs"] += 1
    snap, _ = rec[0]
    states, hams = e2e.propagate(snap, None, umode=umode)
    v, w, c = e2e.compare_results(results, snap, states, hams, state_tol=tol, obs_tol=tol if not mps else tol,
                                  check_tags={"occupation", "correlation_matrix", "energy"})
    for key, msg in v[:3]:
        viol.append({"key": "C13:insitu-" + key, "msg": f"{fp}: {msg}", "detail": {"spec": spec, "observable_order": [o.tag for o in obs]}})
    worst.update({"insitu_" + k: x for k, x in w.items()})
    # entropy in range and equal to the dense value of the exact state (loose: TDVP state error)
    if mps and "entanglement_entropy" in results.get_result_tags():
        cut = next(o for o in obs if o.tag == "entanglement_entropy").mps_site
        perm_ok = not cfg.optimize_qubit_ordering  # with reordering the cut refers to internal site order; only the range is judged
        for t in results.get_result_times("entanglement_entropy"):
            s_ = float(results.get_result("entanglement_entropy", t))
            k, _ = e2e.time_index(snap, t)
            cnt["range_checks"] += 1
            if not (-1e-9 <= s_ <= np.log(2) * min(cut + 1, n - cut - 1) + 1e-9):
                viol.append({"key": "C13:insitu-entropy-outside-range", "msg": f"{fp}: {s_}"})
            if perm_ok and abs(s_ - tn.entropy_dense(states[k], cut, n, 2)) > 5e-3:
                viol.append({"key": "C13:insitu-entropy-differs-from-exact-state", "msg": f"{fp}: t={t} {s_} vs {tn.entropy_dense(states[k], cut, n, 2)}"})
    return {"fp": fp, "nontrivial": True, "violations": viol[:6], "counters": cnt, "max": worst,
            "sample": {"kind": "insitu", "backend": case["backend"], "spec": spec, "observable_order": [o.tag for o in obs]} if case["idx"] % 6 == 0 else None}


def _hooked(case):
    """emu-mps runs with quantum-jump noise (the norm of the state drops between jumps) and/or dark atoms: a hook around
    `fill_results` takes the solver's raw state before the call and compares what the call stored with the definition on
    the normalised state padded with dark atoms (the moment where 'the current state' becomes observable)."""
    import emu_mps
    import emu_mps.mps_backend_impl as mpi
    from pulser import NoiseModel

    from vlib.props.C25 import Inject

    rng = np.random.default_rng(case["seed"])
    cnt = {k: 0 for k in REQUIRED}
    cnt.update(hooked_fill_results=0, hooked_unnormalised_states=0)
    viol, worst = [], {}
    n = int(rng.integers(3, 6))
    dark = case["dark"]
    mask = [False] * n
    if dark == "first":
        mask[0] = True
    elif dark == "last":
        mask[-1] = True
    elif dark == "middle":
        mask[n // 2] = True
    if dark != "none" and n >= 4 and rng.random() < 0.4:
        mask[int(rng.integers(n))] = True
    if sum(not m for m in mask) < 2:
        mask = [False] * n
        mask[0] = True
    spec = seqgen.random_spec(rng, n=n, basis="ising", dmin=7.8, spread=0.6, local=False, max_dur=160, min_dur=80, n_pulses=int(rng.integers(1, 3)), amp_max=9.0, det_max=6.0,
                              shuffle_ids=False, layout="line", wf_kinds=["const", "ramp"], delays=False)
    seq = seqgen.build(spec)
    times = [0.25, 0.5, 0.75, 1.0]
    obs = [emu_mps.Occupation(evaluation_times=times), emu_mps.CorrelationMatrix(evaluation_times=times), emu_mps.Energy(evaluation_times=times)]
    obs = [obs[i] for i in rng.permutation(3)]
    nk = {}
    if case["noisy"]:
        nk.update(relaxation_rate=float(rng.uniform(1.0, 4.0)), dephasing_rate=float(rng.uniform(0.2, 2.0)))
    if any(mask):
        nk.update(state_prep_error=0.3, p_false_pos=0.0, p_false_neg=0.0)
    if not nk:
        nk.update(relaxation_rate=2.0)
    fp = f"hooked:n{n}:dark-{dark}:{''.join('1' if m else '0' for m in mask)}:noisy{int(case['noisy'])}"
    cfg = emu_mps.MPSConfig(dt=5.0, precision=1e-8, observables=obs, noise_model=NoiseModel(**nk), n_trajectories=1, log_level=e2e.quiet(), num_gpus_to_use=0, optimize_qubit_ordering=False)
    rec = []
    orig = mpi.MPSBackendImpl.fill_results

    def hooked(impl):
        frac = impl.current_time / impl.target_times[-1]
        raw = tn.dense(impl.state)
        flt = None if impl.well_prepared_qubits_filter is None else [bool(x) for x in impl.well_prepared_qubits_filter]
        hd = ref.mpo_to_dense([ref.t2n(f) for f in impl.hamiltonian.factors]) if len(impl.state.factors) <= 6 else None
        r = orig(impl)
        got = {}
        for tag in ("occupation", "correlation_matrix", "energy"):
            try:
                ts = [float(t) for t in impl.results.get_result_times(tag)]
            except Exception:
                continue
            for t in ts:
                if abs(t - frac) < 1e-9:
                    got[tag] = e2e.to_np(impl.results.get_result(tag, t)).astype(float)
        if got:
            rec.append((frac, raw, flt, hd, got))
        return r

    mpi.MPSBackendImpl.fill_results = hooked
    try:
        random_seed = case["seed"] % (2 ** 31)
        import random

        import torch

        random.seed(random_seed)
        torch.manual_seed(random_seed)
        with Inject(mask if any(mask) else [False] * n):
            emu_mps.MPSBackend(seq, config=cfg).run()
    except Exception as e:
        cnt["insitu_runs"] += 1
        return {"fp": fp, "nontrivial": False, "violations": [{"key": f"C13:hooked-run-raises:{type(e).__name__}", "msg": f"{fp}: {e}"[:300], "detail": {"spec": spec}}], "counters": cnt, "max": worst, "sample": None}
    finally:
        mpi.MPSBackendImpl.fill_results = orig
    cnt["insitu_runs"] += 1
    for frac, raw, flt, hd, got in rec:
        cnt["hooked_fill_results"] += 1
        nrm2 = float(np.vdot(raw, raw).real)
        if abs(nrm2 - 1) > 1e-6:
            cnt["hooked_unnormalised_states"] += 1
        psi = raw / np.sqrt(nrm2)
        good = [i for i in range(n)] if flt is None else [i for i, b in enumerate(flt) if b]  # well_prepared_qubits_filter: True = well prepared
        m = len(good)
        occ_g = ref.occupations(psi, m, 2)
        corr_g = ref.correlations(psi, m, 2)
        occ = np.zeros(n)
        corr = np.zeros((n, n))
        for a_, ia in enumerate(good):
            occ[ia] = occ_g[a_]
            for b_, ib in enumerate(good):
                corr[ia, ib] = corr_g[a_, b_]
        want = {"occupation": occ, "correlation_matrix": corr}
        if hd is not None:
            want["energy"] = np.asarray(float(np.real(np.vdot(psi, hd @ psi))))
        for tag, g in got.items():
            if tag not in want:
                continue
            cnt["range_checks"] += 1
            scale = 1.0 if tag != "energy" else 1.0 + abs(float(want[tag]))
            dev = float(np.abs(np.asarray(g) - want[tag]).max()) / scale
            worst["hooked_dev"] = max(worst.get("hooked_dev", 0.0), dev)
            if g.shape != np.shape(want[tag]) or dev > 1e-7:
                how = "scaled-by-squared-norm" if abs(nrm2 - 1) > 1e-6 and float(np.abs(np.asarray(g) - nrm2 * want[tag]).max()) / scale < 1e-6 else "values"
                viol.append({"key": f"C13:stored-value-differs-from-definition-on-normalised-current-state:{tag}:{how}",
                             "msg": f"{fp}: t={frac:.3g} |psi|^2={nrm2:.6f} max dev {dev:.3e}", "detail": {"spec": spec, "mask": mask}})
                break
    return {"fp": fp, "nontrivial": bool(cnt["hooked_unnormalised_states"] > 0 or any(mask)), "violations": viol[:4], "counters": cnt, "max": worst,
            "sample": {"kind": "hooked", "mask": mask, "noise": nk, "fill_results_observed": len(rec)} if case["idx"] % 6 == 0 else None}


def run_case(case):
    return _direct(case) if case["kind"] == "direct" else _insitu(case) if case["kind"] == "insitu" else _hooked(case)
