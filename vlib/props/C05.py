"""C05 — the MPO Hamiltonian equals the dense neutral-atom Hamiltonian.

Monitor: postcondition on the real `make_H` / `update_H` (emu_mps.hamiltonian): the MPO
factors are contracted to a dense matrix and compared with the independent dense model
(vlib.ref.dense_hamiltonian) of the same arguments; then `update_H` is applied twice more
on the same MPO (fresh drives; zero noise) and re-checked (in-place path).
"""
import itertools

import numpy as np

from vlib import ref

ID = "C05"
LEVEL = "exploration"
ENGINE = 'unit-contracts'
TECHNIQUE = 'runtime postcondition on make_H/update_H vs dense reference model, exhaustive sparsity patterns for small N'
LEVEL_TEXT = 'Exploration: every MPO the real make_H/update_H build for the generated (N, sparsity pattern, type, dim) cases is contracted and compared with an independent dense Hamiltonian; exhaustive over all sparsity patterns for N<=4 (quick) / N<=5 and dim-2 N=6 (thorough), sampled above. Held on K executions, not a proof.'
LEVEL_NOTE = "Trusts vlib/ref.py (dense model from Pulser's documented convention), numpy, and that XY means the exchange term only."
RULE = (
    "cases = (N, interaction sparsity pattern, Rydberg|XY, dim 2|3); exhaustive over all "
    "2^(N(N-1)/2) patterns for small N (quick: N<=4 all, N=5 256 sampled, N=6,7 sampled; thorough: "
    "N<=5 all, N=6 dim-2 all 32768, rest sampled); per pattern random couplings of both signs "
    "(incl. exact ties and tiny values), random omega/delta/phi (incl. zeros) and a random complex "
    "d x d noise term; 3 update_H rounds per MPO. distinct = (N,kind,dim,pattern); non-trivial = "
    "at least one coupling and one non-zero drive"
)
ASSUMPTIONS = [
    "dense model written from Pulser's documented Hamiltonian convention (vlib/ref.py)",
    "XY model is the exchange term U_ij (s+_i s-_j + h.c.) only (DESIGN 0.1)",
    "tolerance 1e-12*(1+|H|_F): measured agreement on the pinned tree is ~5e-16",
]
REQUIRED = ["make_H_checked", "update_H_checked"]
EXHAUSTIVE = {"quick": False, "thorough": False}
BATCH = 32


def _pairs(n):
    return [(i, j) for i in range(n) for j in range(i + 1, n)]


def gen_cases(tier, seed):
    rng = np.random.default_rng(seed)
    cases = []

    def add(n, kind, dim, pats):
        pats = list(pats)
        for k in range(0, len(pats), BATCH if (n, dim) != (7, 3) else 2):
            cases.append(
                {"n": n, "kind": kind, "dim": dim, "patterns": [int(x) for x in pats[k : k + BATCH]],
                 "seed": int(rng.integers(1 << 30))}
            )

    for kind in ("rydberg", "xy"):
        for dim in (2, 3):
            full = (2, 3, 4) if tier == "quick" else (2, 3, 4, 5)
            for n in full:
                add(n, kind, dim, range(2 ** (n * (n - 1) // 2)))
            if tier == "quick":
                add(5, kind, dim, rng.choice(1024, size=96, replace=False))
                add(6, kind, dim, rng.integers(0, 2**15, size=48))
                add(7, kind, dim, rng.integers(0, 2**21, size=16 if dim == 2 else 4))
            else:
                if dim == 2:
                    add(6, kind, dim, range(2**15))
                else:
                    add(6, kind, dim, rng.integers(0, 2**15, size=2048))
                add(7, kind, dim, rng.integers(0, 2**21, size=512 if dim == 2 else 48))
    return cases


def _rand_values(rng, k):
    style = rng.integers(4)
    if style == 0:
        v = rng.normal(size=k) * 10 ** rng.uniform(-2, 2)
    elif style == 1:  # exact ties
        v = np.full(k, rng.normal()) * rng.choice([-1.0, 1.0], size=k)
    elif style == 2:  # tiny and huge mixed
        v = rng.normal(size=k) * 10.0 ** rng.integers(-9, 3, size=k)
    else:
        v = rng.uniform(-5, 5, size=k)
    v[v == 0] = 1.0
    return v


def run_case(case):
    import torch
    from emu_base import HamiltonianType
    import emu_mps.hamiltonian as hm

    rng = np.random.default_rng(case["seed"])
    n, kind, dim = case["n"], case["kind"], case["dim"]
    htype = HamiltonianType.Rydberg if kind == "rydberg" else HamiltonianType.XY
    pairs = _pairs(n)
    viol, fps = [], []
    cnt = {"make_H_checked": 0, "update_H_checked": 0}
    worst = 0.0
    for pat in case["patterns"]:
        U = np.zeros((n, n))
        on = [pq for b, pq in enumerate(pairs) if (pat >> b) & 1]
        vals = _rand_values(rng, len(on)) if on else []
        for (i, j), v in zip(on, vals):
            U[i, j] = U[j, i] = v
        mpo = hm.make_H(
            interaction_matrix=torch.tensor(U, dtype=torch.float64),
            hamiltonian_type=htype, dim=dim, num_gpus_to_use=0,
        )
        cnt["make_H_checked"] += 1
        nontrivial = False
        inter = ref.dense_interaction(U, kind=kind, d=dim)
        for rnd in range(3):
            om = rng.uniform(0, 15, size=n) * (rng.random(n) > 0.2)
            de = rng.uniform(-30, 30, size=n) * (rng.random(n) > 0.2)
            ph = rng.uniform(-np.pi, np.pi, size=n) * (rng.random(n) > 0.3)
            if rnd == 2:
                noise = np.zeros((dim, dim), dtype=complex)
            else:
                noise = rng.normal(size=(dim, dim)) + 1j * rng.normal(size=(dim, dim))
            hm.update_H(
                hamiltonian=mpo,
                omega=torch.tensor(om, dtype=torch.complex128),
                delta=torch.tensor(de, dtype=torch.complex128),
                phi=torch.tensor(ph, dtype=torch.complex128),
                noise=torch.tensor(noise, dtype=torch.complex128),
            )
            cnt["update_H_checked"] += 1
            got = ref.mpo_to_dense([ref.t2n(f) for f in mpo.factors])
            want = ref.dense_hamiltonian(om, de, ph, U, kind=kind, d=dim, noise=noise, interaction=inter)
            scale = 1.0 + np.linalg.norm(want)
            err = np.linalg.norm(got - want) / scale
            worst = max(worst, err / 1e-12)
            if on and om.any():
                nontrivial = True
            if not err <= 1e-12:
                # classify by which part differs
                d0 = got - want
                part = "offdiag" if np.linalg.norm(d0 - np.diag(np.diag(d0))) > 1e-12 * scale else "diag"
                viol.append({
                    "key": f"C05:mpo-differs-from-dense:{kind}:dim{dim}:round{rnd}:{part}",
                    "msg": f"N={n} pattern={pat} rel.err={err:.3e} after update round {rnd}",
                    "detail": {"U": U.tolist(), "omega": om.tolist(), "delta": de.tolist(), "phi": ph.tolist()},
                })
                break
        if nontrivial:
            fps.append(f"{n}:{kind}:{dim}:{pat}")
    return {
        "fp": None, "nontrivial": False, "fps": fps, "n_eval": len(case["patterns"]),
        "violations": viol[:5], "counters": cnt, "max": {"err_over_tol": worst},
        "sample": {"n": n, "kind": kind, "dim": dim, "pattern": case["patterns"][-1]} if case["idx"] % 40 == 0 else None,
    }
