"""C06 — emu-sv operators apply exactly the Hamiltonian and Lindbladian they represent.

Monitor: postconditions on the real `RydbergHamiltonian.__mul__/expect`, `RydbergLindbladian.__matmul__/h_eff/expect`
and `matmul_2x2_with_batched` (on the very shapes the Lindbladian produces), oracle = dense numpy model (vlib.ref).
"""
import numpy as np

from vlib import ref

ID = "C06"
LEVEL = "exploration"
ENGINE = "unit-contracts"
TECHNIQUE = "runtime postcondition on RydbergHamiltonian/RydbergLindbladian/matmul_2x2_with_batched vs dense reference"
LEVEL_TEXT = ("Exploration: each generated operator is applied to random complex vectors / random Hermitian matrices and compared "
              "with the dense Hamiltonian / Lindblad generator of the same parameters (N=1..8, Lindbladian N<=5; phases all-zero, "
              "mixed with exact zeros at every position pattern, all non-zero; 0-6 random complex 2x2 jump operators); the batched "
              "2x2 product is compared with `left @ right` on the (2^q,2,rest) shapes recorded from the Lindbladian.")
LEVEL_NOTE = "No CUDA device in the sandbox: the is_cpu dispatch cannot be exercised; the batched (GPU-path) product is checked on CPU tensors."
RULE = ("(N, phase pattern bitmask of exact zeros, dtype of the drive tensors, #jump operators); N<=4: all zero/non-zero phase "
        "patterns are enumerated; random Omega (incl. zeros), delta of both signs, symmetric U with zero diagonal (incl. zeros). "
        "distinct=(N,pattern,dtype,njumps,kind); non-trivial = some Omega != 0 and N>=1")
ASSUMPTIONS = ["dense model written from Pulser's documented convention (vlib/ref.py)",
               "Lindbladian is fed Hermitian matrices only (it forms X - X^dagger, which is the generator only for Hermitian input, as the property states)",
               "tolerance 1e-11 relative to (1+|H|)|v|; measured ~1e-15"]
REQUIRED = ["ham_mul_checked", "ham_expect_checked", "lind_matmul_checked", "heff_checked", "lind_expect_checked", "batched_matmul_checked"]
TOL = 1e-11


def gen_cases(tier, seed):
    rng = np.random.default_rng(seed)
    cases = []
    reps = 3 if tier == "quick" else 30
    for _ in range(reps):
        for n in range(1, 9):
            pats = list(range(2 ** n)) if n <= 4 else [0, 2 ** n - 1] + [int(x) for x in rng.integers(1, 2 ** n - 1, size=14 if tier == "quick" else 30)]
            for k in range(0, len(pats), 8):
                cases.append({"n": n, "pats": pats[k:k + 8], "seed": int(rng.integers(1 << 30))})
    return cases


def _params(rng, n, pat):
    om = rng.uniform(0, 15, size=n) * (rng.random(n) > 0.15)
    de = rng.uniform(-30, 30, size=n) * (rng.random(n) > 0.15)
    ph = rng.uniform(-np.pi, np.pi, size=n)
    ph[ph == 0] = 0.5
    for q in range(n):
        if not (pat >> q) & 1:
            ph[q] = 0.0
    U = np.zeros((n, n))
    iu = np.triu_indices(n, 1)
    vals = rng.normal(size=len(iu[0])) * 10 ** rng.uniform(-1, 2) * (rng.random(len(iu[0])) > 0.2)
    U[iu] = vals
    U = U + U.T
    return om, de, ph, U


def run_case(case):
    import torch
    from emu_sv.hamiltonian import RydbergHamiltonian
    from emu_sv.lindblad_operator import RydbergLindbladian
    from emu_sv.state_vector import StateVector
    from emu_sv.density_matrix_state import DensityMatrix
    from emu_base.math.matmul import matmul_2x2_with_batched

    rng = np.random.default_rng(case["seed"])
    n = case["n"]
    D = 2 ** n
    cnt = {k: 0 for k in REQUIRED}
    viol, fps = [], []
    worst = {"rel_err_over_tol": 0.0}
    dev = torch.device("cpu")

    def rel(got, want, scale):
        e = float(np.linalg.norm(got - want)) / scale
        worst["rel_err_over_tol"] = max(worst["rel_err_over_tol"], e / TOL)
        return e

    for pat in case["pats"]:
        om, de, ph, U = _params(rng, n, pat)
        cdt = torch.complex128 if rng.random() < 0.7 else torch.float64
        t = lambda a: torch.tensor(a, dtype=cdt)  # noqa: E731
        Ut = torch.tensor(U, dtype=torch.float64 if rng.random() < 0.5 else torch.complex128)
        Hd = ref.dense_hamiltonian(om, de, ph, U)
        hn = 1.0 + float(np.linalg.norm(Hd, 2))
        desc = f"N={n} phase-pattern={pat:0{n}b}(lsb=q0) dtype={str(cdt)[6:]} phis={np.round(ph, 3).tolist()}"
        # ---------------- Hamiltonian
        try:
            ham = RydbergHamiltonian(omegas=t(om), deltas=t(de), phis=t(ph), interaction_matrix=Ut, device=dev)
            for _ in range(2):
                v = rng.normal(size=D) + 1j * rng.normal(size=D)
                v *= 10 ** rng.uniform(-2, 2)
                vt = torch.tensor(v, dtype=torch.complex128)
                got = (ham * vt).numpy()
                cnt["ham_mul_checked"] += 1
                if not np.array_equal(vt.numpy(), v):
                    viol.append({"key": "C06:hamiltonian-mul-modifies-input", "msg": desc})
                e = rel(got, Hd @ v, hn * np.linalg.norm(v))
                if not e <= TOL:
                    viol.append({"key": f"C06:hamiltonian-times-vector-differs:{'complex' if pat else 'real'}-path",
                                 "msg": f"{desc}: rel.err {e:.3e}", "detail": {"omega": om.tolist(), "delta": de.tolist(), "phi": ph.tolist(), "U": U.tolist()}})
                    break
            psi = rng.normal(size=D) + 1j * rng.normal(size=D)
            psi /= np.linalg.norm(psi)
            en = float(ham.expect(StateVector(torch.tensor(psi), gpu=False)))
            cnt["ham_expect_checked"] += 1
            want = float(np.real(np.vdot(psi, Hd @ psi)))
            if abs(en - want) > TOL * hn:
                viol.append({"key": "C06:hamiltonian-expect-differs", "msg": f"{desc}: {en!r} vs {want!r}"})
        except Exception as e:
            viol.append({"key": f"C06:hamiltonian-raises:{type(e).__name__}", "msg": f"{desc}: {e}"[:300]})
        # ---------------- Lindbladian (N <= 5)
        if n <= 5:
            nj = int(rng.integers(0, 7))
            Ls = [(rng.normal(size=(2, 2)) + 1j * rng.normal(size=(2, 2))) * rng.uniform(0.05, 1.5) for _ in range(nj)]
            if nj and rng.random() < 0.3:  # structured ones as produced by the noise models
                Ls[0] = np.array([[0, 1], [0, 0]], dtype=complex) * rng.uniform(0.1, 1)
            for j_ in range(nj):  # exact structure invites special-cased kernels: diagonal with a complex relative phase, triangular, Hermitian, real
                u_ = rng.random()
                if u_ < 0.15:
                    Ls[j_] = np.diag(np.diag(Ls[j_]))
                elif u_ < 0.25:
                    Ls[j_] = np.triu(Ls[j_], 1)
                elif u_ < 0.35:
                    Ls[j_] = np.tril(Ls[j_], -1)
                elif u_ < 0.42:
                    Ls[j_] = Ls[j_] + Ls[j_].conj().T
                elif u_ < 0.5:
                    Ls[j_] = Ls[j_].real.astype(complex)
            jumps = ref.local_jumps(Ls, n)
            x = rng.normal(size=(D, D)) + 1j * rng.normal(size=(D, D))
            rho = x + x.conj().T  # Hermitian, not PSD: the generator is linear
            rho *= 10 ** rng.uniform(-1, 1)
            try:
                lind = RydbergLindbladian(omegas=t(om), deltas=t(de), phis=t(ph), pulser_lindblads=[torch.tensor(L, dtype=torch.complex128) for L in Ls],
                                          interaction_matrix=Ut, device=dev)
                rt = torch.tensor(rho, dtype=torch.complex128)
                got = -1j * (lind @ rt).numpy()
                cnt["lind_matmul_checked"] += 1
                want = ref.lindblad_rhs(Hd, jumps, rho)
                ln = hn + sum(float(np.linalg.norm(L, 2)) ** 2 for L in Ls) * n
                e = rel(got, want, ln * np.linalg.norm(rho))
                if not np.array_equal(rt.numpy(), rho):
                    viol.append({"key": "C06:lindbladian-matmul-modifies-input", "msg": desc})
                if not e <= TOL:
                    # attribute: coherent part or dissipator
                    lind0 = RydbergLindbladian(omegas=t(om), deltas=t(de), phis=t(ph), pulser_lindblads=[], interaction_matrix=Ut, device=dev)
                    e0 = float(np.linalg.norm(-1j * (lind0 @ rt).numpy() - ref.lindblad_rhs(Hd, [], rho))) / (ln * np.linalg.norm(rho))
                    part = "coherent" if e0 > TOL else "dissipator"
                    viol.append({"key": f"C06:lindbladian-differs-from-dense-generator:{part}", "msg": f"{desc} njumps={nj}: rel.err {e:.3e}"})
                # h_eff with the summed local noise term
                G = sum((L.conj().T @ L for L in Ls), np.zeros((2, 2), dtype=complex))
                Heff = Hd + sum(ref.op_on(-0.5j * G, q, n) for q in range(n))
                got_h = lind.h_eff(rt, torch.tensor(-0.5j * G, dtype=torch.complex128)).numpy()
                cnt["heff_checked"] += 1
                e = rel(got_h, Heff @ rho, ln * np.linalg.norm(rho))
                if not e <= TOL:
                    viol.append({"key": "C06:h_eff-differs-from-dense", "msg": f"{desc} njumps={nj}: rel.err {e:.3e}"})
                y = rng.normal(size=(D, D)) + 1j * rng.normal(size=(D, D))
                dm = y @ y.conj().T
                dm /= np.trace(dm).real
                en = float(lind.expect(DensityMatrix(torch.tensor(dm), gpu=False)))
                cnt["lind_expect_checked"] += 1
                want = float(np.real(np.trace(Hd @ dm)))
                if abs(en - want) > TOL * hn:
                    viol.append({"key": "C06:lindbladian-expect-differs", "msg": f"{desc}: {en!r} vs {want!r}"})
            except Exception as e:
                viol.append({"key": f"C06:lindbladian-raises:{type(e).__name__}", "msg": f"{desc}: {e}"[:300]})
            # batched 2x2 product on the shapes the Lindbladian uses: (2^q, 2, rest) for left and (2^(q+N), 2, rest) for right action
            for q in range(n):
                for lead in (2 ** q, 2 ** (q + n)):
                    right = torch.tensor((rng.normal(size=(D, D)) + 1j * rng.normal(size=(D, D))), dtype=torch.complex128).view(lead, 2, -1)
                    left = torch.tensor(rng.normal(size=(2, 2)) + 1j * rng.normal(size=(2, 2)), dtype=torch.complex128)
                    got = matmul_2x2_with_batched(left, right)
                    cnt["batched_matmul_checked"] += 1
                    want = left @ right
                    e = float((got - want).norm() / (1 + want.norm()))
                    if not e <= 1e-13:
                        viol.append({"key": "C06:batched-2x2-product-differs-from-matmul", "msg": f"shape {tuple(right.shape)}: {e:.3e}"})
        if om.any():
            fps.append(f"{n}:{pat}:{str(cdt)[6:]}")
    return {"fp": None, "nontrivial": False, "fps": fps, "n_eval": len(case["pats"]), "violations": viol[:6], "counters": cnt,
            "max": worst, "sample": {"n": n, "phase_zero_pattern": f"{case['pats'][0]:0{n}b}"} if case["idx"] % 9 == 0 else None}
